"""C05 - linear resampling (tracklib/algo/interpolation.py, Track.resample)."""
import ast

from ..alg import Rat
from ..loader import shape_error, anchor_error
from ..sx import Walker, State
from ..util import body_nodocstring, names_stored, unparse

INT = 'tracklib.algo.interpolation'
TRACK = 'tracklib.core.track.Track'

EXPLANATION = (
    'Static analysis by interpretation of the source (nothing imported or executed by CPython): Track.resample in linear temporal and spatial mode is walked by tlint.orders on five irregular ENU tracks (repeated position, climbing, two fixes, tied timestamps) with requests given as a number (dividing and not dividing the duration, longer than it, a float subclass), as lists of instants (before / on / between / after the fixes) and as a reference track, spatial steps that do and do not divide the 2D length, a stale abs_curv feature and the npts form; the result is compared with the piecewise-linear interpolant (count, x, y, z, instants to the millisecond, non-decreasing times, feature table reset).')
ASSUMPTIONS = ["strictly increasing timestamps and sorted requests (precondition); denominators a_f - a_b are non-zero"]
TECHNIQUE = "abstract interpretation of Track.resample / interpolation.resample / prepareTimeSampling by the checker's AST interpreter on irregular tracks and request forms, against the piecewise-linear interpolant computed by the checker (bounded case domain)"


def vr(v):
    if isinstance(v, Rat):
        a = v.single_atom()
        return a if a is not None else repr(v)
    return repr(v)


def _priv(ctx, suffix):
    for q, fi in ctx.prog.functions.items():
        if q.startswith(INT + '.') and fi.name == suffix and fi.cls is None:
            return fi
    raise anchor_error('%s.%s not found' % (INT, suffix), INT)


def _sampling_loop(f, body):
    cands = [s for s in body if isinstance(s, ast.For) and any(isinstance(n, ast.While) for n in s.body)]
    if len(cands) != 1:
        raise shape_error('%s: sampling loop (with its bracket scan) not found' % f.name, f.loc())
    return cands[0]


def _analyse_sampling(ctx, f, kind):
    """shared by the temporal and the spatial resampler"""
    body = body_nodocstring(f)
    tr = f.params[0]
    lo = _sampling_loop(f, body)
    wl = [s for s in lo.body if isinstance(s, ast.While)][0]
    w = Walker(f, loop_mode='skip')
    # the abscissa table: name subscripted in the scan test
    tab = None
    for n in ast.walk(wl.test):
        if isinstance(n, ast.Subscript) and isinstance(n.value, ast.Name):
            tab = n.value.id
    if tab is None:
        raise shape_error('%s: scan test does not read a table' % f.name, f.loc(wl))
    rid = None
    for n in ast.walk(wl.test):
        if isinstance(n, ast.Subscript) and isinstance(n.value, ast.Name) and n.value.id == tab and isinstance(n.slice, ast.Name):
            rid = n.slice.id
    if rid is None:
        raise shape_error('%s: scan counter not found' % f.name, f.loc(wl))
    # ---- table construction: A[i] pairs with fix i --------------------------------------
    pre_stmts = body[:body.index(lo)]
    tl = [s for s in pre_stmts if isinstance(s, ast.For) and any(
        isinstance(n, ast.Call) and getattr(n.func, 'attr', None) == 'append' and isinstance(n.func.value, ast.Name) and n.func.value.id == tab
        for n in ast.walk(s))]
    tc = [s for s in pre_stmts if isinstance(s, ast.Assign) and isinstance(s.targets[0], ast.Name) and s.targets[0].id == tab and
          isinstance(s.value, ast.ListComp)]
    if len(tl) + len(tc) != 1:
        raise shape_error('%s: construction of the abscissa table not found' % f.name, f.loc())
    tl = (tl + tc)[0]
    pre_t = [o for o in w.run(body[:body.index(tl)], State()) if o.kind == 'fall'][0].state
    if isinstance(tl, ast.For):
        iv = tl.target.id
        r = w.range_info(tl.iter, pre_t)
        st_t = pre_t.fork()
        st_t.events = []
        st_t.env.update({iv: Rat.atom(iv), tab: Rat.atom(tab)})
        bo = [o for o in w.run(tl.body, st_t) if o.kind in ('fall', 'continue')]
        noapp = [o for o in bo if not any(e.kind == 'call' and e.name == 'append' and vr(e.recv) == tab for e in o.state.events)]
        if noapp and len(noapp) < len(bo):
            ctx.violation('C05.I' if kind == 'temporal' else 'C05.L', f, 'the abscissa table gets one entry for every fix (entry i belongs to fix i)',
                          {'path without entry': [repr(c) for c, _ in noapp[0].state.conds],
                           'why': 'the scan counter indexes the table and the track alike: after a skipped entry every later sample is interpolated between the wrong two fixes'},
                          node=tl, key='table-aligned')
            return None
        if len(bo) != 1:
            raise shape_error('table loop body not straight-line', f.loc(tl))
        app = [e for e in bo[0].state.events if e.kind == 'call' and e.name == 'append' and vr(e.recv) == tab]
        if len(app) != 1:
            raise shape_error('table loop: expected one append', f.loc(tl))
        elt = app[0].args[0]
        titer = unparse(tl.iter)
    else:
        ci = w.comp_info(tl.value, pre_t)
        if ci is None or ci['ifs']:
            raise shape_error('%s: table comprehension not understood' % f.name, f.loc(tl))
        iv, r, elt = ci['var'], ci['range'], ci['elt']
        titer = unparse(tl.value.generators[0].iter)
    size = Rat.atom('%s.size()' % tr)
    if kind == 'temporal':
        okt = vr(elt) == '%s.getObs(%s).timestamp.toAbsTime()' % (tr, iv) and r is not None and vr(r[0]) == '0' and \
            w.rel.is_zero(r[1] - size)
        ctx.check(okt, 'C05.I', f, 'T[i] is the epoch-seconds timestamp of fix i, for every fix',
                  witness={'element i': vr(elt), 'range': titer}, node=tl, key='table')
    else:
        im1 = repr(Rat.atom(iv) - Rat.const(1))
        legs = {'%s.getObs(%s).position.distance2DTo(%s.getObs(%s).position)' % (tr, a, tr, b) for a, b in ((im1, iv), (iv, im1))}
        v = elt
        prev = Rat.atom('%s[%s]' % (tab, im1))
        leg = v - prev if isinstance(v, Rat) else None
        okl = leg is not None and vr(leg) in legs
        ctx.check(okl, 'C05.L', f, 'S[i] = S[i-1] + planimetric (2D) distance between fix i-1 and fix i',
                  witness={'appended': vr(v), 'leg': vr(leg) if leg is not None else None,
                           'why': 'a 3D leg places the samples at 3D abscissas: they no longer sit at ds, 2ds, ... along the 2D polyline'},
                  node=tl, key='legs')
        s0 = pre_t.env.get(tab)
        ctx.check(isinstance(s0, list) and len(s0) == 1 and isinstance(s0[0], Rat) and s0[0].isconst() and s0[0].constval() == 0 and
                  r is not None and vr(r[0]) == '1' and w.rel.is_zero(r[1] - size), 'C05.L', f,
                  'the cumulated abscissa starts at S[0] = 0 and has one entry per fix', witness={'initial': vr(s0), 'range': titer},
                  node=tl, key='s0')
    # ---- one iteration of the sampling loop ----------------------------------------------
    kv = lo.target.id
    pre_l = [o for o in w.run(body[body.index(tl) + 1:body.index(lo)], State({tab: Rat.atom(tab)})) if o.kind == 'fall']
    lastname = '%s[%s]' % (tab, repr(Rat.atom('len(%s)' % tab) - Rat.const(1)))
    for o_ in pre_l:                # A[-1] is A[len(A)-1]
        for k_, v_ in list(o_.state.env.items()):
            if isinstance(v_, Rat) and ('%s[-1]' % tab) in v_.atoms():
                o_.state.env[k_] = v_.subst('%s[-1]' % tab, Rat.atom(lastname))
        for e_ in o_.state.events:
            if e_.kind == 'call' and e_.args:
                e_.args = [a_.subst('%s[-1]' % tab, Rat.atom(lastname)) if isinstance(a_, Rat) and ('%s[-1]' % tab) in a_.atoms() else a_ for a_ in e_.args]
    if len(pre_l) != 1:
        raise shape_error('%s: code before the sampling loop' % f.name, f.loc())
    pst = pre_l[0].state
    rid0 = pst.env.get(rid)
    ctx.check(isinstance(rid0, Rat) and rid0.isconst() and rid0.constval() == 0, 'C05.A', f, 'the bracket scan starts at index 0',
              witness={'initial': vr(rid0)}, node=lo, key='rid0')
    st = pst.fork()
    st.events = []
    st.conds = []
    for v in names_stored(lo.body):
        st.env[v] = Rat.atom(v + '@')
    st.env[kv] = Rat.atom(kv)
    st.env[tab] = Rat.atom(tab)
    outs = list(w.run(lo.body, st))
    sample_paths = [o for o in outs if any(e.kind == 'call' and e.name == 'append' for e in o.state.events)]
    if len(sample_paths) != 1:
        raise shape_error('%s: expected exactly one sampling path per iteration, found %d' % (f.name, len(sample_paths)), f.loc(lo))
    o = sample_paths[0]
    env = o.state.env
    # requested abscissa
    scan_c = w.cond(wl.test, State(dict(env)))
    # after the scan: rid is a fresh atom r
    rv = env.get(rid)
    if not (isinstance(rv, Rat) and rv.single_atom()):
        raise shape_error('%s: scan counter after the scan' % f.name, f.loc(wl))
    # the scan: strict comparison A[rid] < a, counter + 1
    sst = State({rid: Rat.atom(rid), tab: Rat.atom(tab)})
    for n_ in ast.walk(wl.test):
        if isinstance(n_, ast.Name) and n_.id not in (rid, tab):
            sst.env[n_.id] = Rat.atom(n_.id)
    tc_ = w.cond(wl.test, sst)
    a_name = None
    okscan = tc_.kind == 'cmp' and tc_.op == '<' and vr(tc_.a) == '%s[%s]' % (tab, rid) and isinstance(tc_.b, Rat) and tc_.b.single_atom() is not None and \
        tc_.b.single_atom().isidentifier()
    if tc_.kind == 'cmp' and isinstance(tc_.b, Rat) and vr(tc_.a) == '%s[%s]' % (tab, rid) and (tc_.b.single_atom() or '').isidentifier():
        a_name = tc_.b.single_atom()
    sb = [o_ for o_ in w.run(wl.body, State({rid: Rat.atom(rid)}))]
    okinc = len(sb) == 1 and sb[0].kind == 'fall' and isinstance(sb[0].state.env.get(rid), Rat) and \
        w.rel.is_zero(sb[0].state.env[rid] - Rat.atom(rid) - Rat.const(1)) and not [e for e in sb[0].state.events if e.kind in ('call', 'store')]
    ctx.check(okscan and okinc, 'C05.A', f,
              'the bracket is found by a strict sentinel scan: while A[r] < a: r += 1 (a == A[last] must stop the scan)',
              witness={'test': repr(tc_), 'why': 'a non-strict test runs past the last fix when the request equals the last abscissa'},
              node=wl, key='scan')
    if a_name is None:
        return None
    a = env.get(a_name)
    A = lambda k: Rat.atom('%s[%s]' % (tab, repr(k)))
    rr = rv
    ab, af = A(rr - Rat.const(1)), A(rr)
    wb = (af - a) / (af - ab)
    wf = (a - ab) / (af - ab)
    P = lambda k, g: Rat.atom('%s.getObs(%s).%s' % (tr, repr(k), g))
    # the Obs built on this path
    obs_calls = [e for e in o.state.events if e.kind == 'call' and e.name == 'Obs']
    coords = [e for e in o.state.events if e.kind == 'call' and e.name == 'ENUCoords']
    if len(coords) != 1 or len(obs_calls) != 1:
        raise shape_error('%s: construction of the interpolated observation not found' % f.name, f.loc(lo))
    for idx, g, nm in ((0, 'position.getX()', 'x'), (1, 'position.getY()', 'y'), (2, 'position.getZ()', 'z')):
        got = coords[0].args[idx] if len(coords[0].args) > idx else None
        exp = wb * P(rr - Rat.const(1), g) + wf * P(rr, g)
        ctx.check(isinstance(got, Rat) and w.rel.is_zero(got - exp), 'C05.W', f,
                  '%s: %s = (a_f - a)/(a_f - a_b) * %s[r-1] + (a - a_b)/(a_f - a_b) * %s[r] with a_b = %s[r-1], a_f = %s[r] (same r as the fixes)'
                  % (kind, nm, nm, nm, tab, tab),
                  witness={'found': vr(got)[:300] if got is not None else None, 'expected': vr(exp)[:300]}, node=coords[0].node, key='interp:' + nm)
    stamp = obs_calls[0].args[1] if len(obs_calls[0].args) > 1 else None
    if kind == 'temporal':
        ctx.check(vr(stamp) == 'ObsTime.readUnixTime(%s)' % vr(a), 'C05.S', f, 'the interpolated fix is stamped with the requested instant itself',
                  witness={'timestamp': vr(stamp), 'requested': vr(a)}, node=obs_calls[0].node, key='stamp')
    else:
        expT = wb * P(rr - Rat.const(1), 'timestamp.toAbsTime()') + wf * P(rr, 'timestamp.toAbsTime()')
        m = vr(stamp)
        okT = m.startswith('ObsTime.readUnixTime(') and m.endswith(')')
        ctx.check(okT and vr(expT) == m[len('ObsTime.readUnixTime('):-1], 'C05.W', f,
                  'spatial: the timestamp is interpolated with the same weights between the same two fixes',
                  witness={'timestamp': m[:300], 'expected argument': vr(expT)[:300]}, node=obs_calls[0].node, key='interp:t')
    app2 = [e for e in o.state.events if e.kind == 'call' and e.name == 'append']
    ctx.check(len(app2) == 1 and vr(app2[0].args[0]) == obs_calls[0].value, 'C05.S', f, 'exactly one observation is produced per admitted request',
              witness={'appends': len(app2)}, node=lo, key='one-per-request')
    return dict(o=o, outs=outs, a=a, a_name=a_name, tab=tab, pst=pst, w=w, lo=lo, kv=kv, tr=tr, body=body)


def rule_T(ctx):
    """C05.W/I/A/S temporal"""
    f = _priv(ctx, '__resampleTemporal')
    info = _analyse_sampling(ctx, f, 'temporal')
    if info is None:
        return
    w, o, pst, tab, a = info['w'], info['o'], info['pst'], info['tab'], info['a']
    first = Rat.atom('%s[0]' % tab)
    last = Rat.atom('%s[%s]' % (tab, repr(Rat.atom('len(%s)' % tab) - Rat.const(1))))
    conds = [cj for c, _ in o.state.conds for cj in c.conjuncts() if cj.kind == 'cmp' and isinstance(cj.a, Rat) and isinstance(cj.b, Rat)]
    lo_ok = any(cj.op == '<' and w.rel.is_zero(cj.a - first) and w.rel.is_zero(cj.b - a) for cj in conds)
    hi_ok = any(cj.op == '<=' and w.rel.is_zero(cj.a - a) and w.rel.is_zero(cj.b - last) for cj in conds)
    extra = [repr(cj) for cj in conds if not ((w.rel.is_zero(cj.a - first) and w.rel.is_zero(cj.b - a)) or
                                              (w.rel.is_zero(cj.a - a) and w.rel.is_zero(cj.b - last)) or tab + '[' in repr(cj) and "'" in repr(cj))]
    ctx.check(lo_ok and hi_ok, 'C05.A', f,
              'a requested instant is interpolated exactly when t_first < t <= t_last',
              witness={'guards on the sampling path': [repr(cj) for cj in conds],
                       'expected': ['%s < %s' % (vr(first), vr(a)), '%s <= %s' % (vr(a), vr(last))]}, node=info['lo'], key='admission')
    # the request list comes from prepareTimeSampling(reference, t_first, t_last)
    calls = [e for e in pst.events if e.kind == 'call' and e.name == 'prepareTimeSampling']
    okp = len(calls) == 1 and vr(calls[0].args[0]) == f.params[1] and w.rel.is_zero(calls[0].args[1] - first) and \
        w.rel.is_zero(calls[0].args[2] - last)
    ctx.check(okp, 'C05.R', f, 'the requests are prepared from the reference with the first and last timestamps of the track',
              witness={'call': unparse(calls[0].node) if calls else None}, node=f.node, key='prepare')
    callv = calls[0].value if calls else '?'
    lo_, kv_ = info['lo'], info['kv']
    rq = w.range_info(lo_.iter, pst.fork())
    if rq is not None:
        okq = vr(a) == '%s[%s]' % (callv, kv_) and vr(rq[0]) == '0' and vr(rq[1]) == 'len(%s)' % callv and vr(rq[2]) == '1'
    else:
        okq = vr(w.ex(lo_.iter, pst.fork())) == callv and vr(a) == kv_
    ctx.check(okq, 'C05.R', f, 'every prepared request is examined in order',
              witness={'requested': vr(a), 'loop': unparse(lo_.iter)}, node=lo_, key='ref-k')
    t = unparse(f.node)
    ctx.recognise('%s.setObsList(interp_points)' % info['tr'] in t or 'setObsList(' in t, 'C05.S', f, 'the track receives the interpolated observations',
              witness={}, node=f.node, key='setobs')


def rule_L(ctx):
    """C05.L spatial"""
    f = _priv(ctx, '__resampleSpatial')
    info = _analyse_sampling(ctx, f, 'spatial')
    if info is None:
        return
    w, o, pst, tab, a, lo, kv, tr = info['w'], info['o'], info['pst'], info['tab'], info['a'], info['lo'], info['kv'], info['tr']
    ds = Rat.atom(f.params[1])
    first = Rat.atom('%s[0]' % tab)
    last = Rat.atom('%s[%s]' % (tab, repr(Rat.atom('len(%s)' % tab) - Rat.const(1))))
    ctx.check(isinstance(a, Rat) and w.rel.is_zero(a - (Rat.atom(kv) * ds + first)), 'C05.L', f, 'sample k sits at abscissa k*ds (from the first fix)',
              witness={'abscissa': vr(a)}, node=lo, key='abscissa')
    r = w.range_info(lo.iter, pst)
    N = 'int(%s)' % w.canon((last - first) / ds)
    nl = lambda t_: t_.replace('%s[-1]' % tab, '%s[-1 + len(%s)]' % (tab, tab))
    okr = r is not None and vr(r[0]) == '1' and nl(vr(r[1] - Rat.const(1))) == N and vr(r[2]) == '1'
    ctx.check(okr, 'C05.L', f, 'samples are k = 1 .. int(L/ds) (L the 2D length): none beyond the end of the polyline',
              witness={'range': [vr(x) for x in r] if r else None, 'expected end': '%s + 1' % N}, node=lo, key='count')
    ip = pst.env.get('interp_points')
    txt = unparse(f.node)
    fo = ['%s.getFirstObs().copy()' % tr, '%s.getObs(0).copy()' % tr, '%s[0].copy()' % tr]
    ctx.check(isinstance(ip, list) and len(ip) == 1 and vr(ip[0]) in fo, 'C05.L', f, 'the output starts with a copy of the first fix',
              witness={'initial output list': vr(ip)}, node=f.node, key='first')
    ctx.recognise('%s.setObsList(interp_points)' % tr in txt, 'C05.S', f, 'the track receives the interpolated observations', witness={}, node=f.node, key='setobs')


def rule_R(ctx):
    """C05.R prepareTimeSampling: three forms of the request"""
    f = ctx.prog.func(INT + '.prepareTimeSampling')
    inp, tini, tfin = f.params[:3]
    body = body_nodocstring(f)
    w = Walker(f, loop_mode='skip')
    arms = [s for s in body if isinstance(s, ast.If)]
    found = {}
    for s in arms:
        t = unparse(s.test)
        if 'list' in t:
            found['list'] = s
        elif 'Track' in t:
            found['track'] = s
        elif 'int' in t or 'float' in t:
            found['number'] = s
    for k in ('list', 'track', 'number'):
        if k not in found:
            raise shape_error('prepareTimeSampling: arm for %s not found' % k, f.loc())
    exact = [n for n in ast.walk(found['number'].test) if isinstance(n, ast.Call) and getattr(n.func, 'id', None) == 'type']
    ctx.check(not exact, 'C05.R', f, 'a step is recognised as a number by isinstance (subclasses of int / float included)',
              witness={'test': unparse(found['number'].test),
                       'why': 'an exact-type test rejects float subclasses such as numpy.float64 (the mean or median of sampling intervals): the request list stays empty '
                              'and the track comes back empty'}, node=found['number'], key='number-test')
    for k, exp_v, exp_hi in (('list', '%s[i].toAbsTime()' % inp, 'len(%s)' % inp), ('track', '%s.getObs(i).timestamp.toAbsTime()' % inp, '%s.size()' % inp)):
        wa = Walker(f, loop_mode='once')
        seen_app = []
        for o in wa.run(found[k].body, State()):
            for e in o.state.events:
                if e.kind == 'call' and e.name == 'append' and e.loops and not any(e.node is x.node for x in seen_app):
                    seen_app.append(e)
        ok = False
        wit = {'appends': [repr(e) for e in seen_app]}
        if len(seen_app) == 1:
            e = seen_app[0]
            lp = e.loops[-1]
            if lp['kind'] == 'for' and isinstance(lp['node'].target, ast.Name):
                lv = lp['node'].target.id
                r = lp.get('range')
                got = vr(e.args[0])
                if r is not None:
                    ok = vr(r[0]) == '0' and vr(r[1]) == exp_hi and vr(r[2]) == '1' and got == exp_v.replace('[i]', '[%s]' % lv).replace('(i)', '(%s)' % lv)
                else:
                    ok = k == 'list' and vr(lp['iter']) == inp and got == '%s.toAbsTime()' % lv
                wit.update({'element appended': got, 'loop': unparse(lp['node'].iter)})
            ok = ok and not e.conds          # no element is filtered out
        ctx.check(bool(ok), 'C05.R', f, 'request given as a %s: every element contributes its epoch seconds, in order' % k, witness=wit, node=found[k], key='arm:' + k)
    # number: tini, tini + d, ... while <= tfin
    nb = found['number'].body
    loops = [s for s in nb if isinstance(s, ast.While)]
    if len(loops) != 1:
        raise shape_error('prepareTimeSampling: regular sampling loop not found', f.loc(found['number']))
    wl = loops[0]
    pre = [o for o in w.run(nb[:nb.index(wl)], State()) if o.kind == 'fall'][0].state
    tv = None
    for k, v in pre.env.items():
        if isinstance(v, Rat) and v.single_atom() == tini:
            tv = k
    ctx.check(tv is not None, 'C05.R', f, 'regular sampling starts at the first timestamp', witness={'env': {k: vr(v) for k, v in pre.env.items()}},
              node=wl, key='start')
    if tv is None:
        return
    st = State({tv: Rat.atom(tv + '@')})
    c = w.cond(wl.test, st)
    head_ok = True
    if not c.is_const():
        st.conds.append((c, wl.test))
        head_ok = c.kind == 'cmp' and c.op == '<=' and vr(c.a) == tv + '@' and vr(c.b) == tfin
        ctx.check(head_ok, 'C05.R', f, 'an instant is generated exactly while it does not exceed the last timestamp (t <= t_last)',
                  witness={'loop test': repr(c), 'why': 'with a strict test the instant equal to the last timestamp is never generated'},
                  node=wl, key='while-test')
    outs = list(w.run(wl.body, st))
    for o in outs:
        apps = [e for e in o.state.events if e.kind == 'call' and e.name == 'append']
        ctx.check(len(apps) == 1 and vr(apps[0].args[0]) == tv + '@', 'C05.R', f, 'each iteration emits the current instant once',
                  witness={'appends': [vr(e.args[0]) for e in apps]}, node=wl, key='emit:' + o.kind)
        nv = o.state.env.get(tv)
        ctx.check(isinstance(nv, Rat) and w.rel.is_zero(nv - Rat.atom(tv + '@') - Rat.atom(inp)), 'C05.R', f, 'instants advance by the requested step',
                  witness={'next': vr(nv)}, node=wl, key='step:' + o.kind)
        if c.is_const():
            conds = [cj for c_, _ in o.state.conds for cj in c_.conjuncts() if cj.kind == 'cmp']
            if o.kind == 'break':
                ok = any(cj.op == '<' and vr(cj.a) == tfin and isinstance(cj.b, Rat) and w.rel.is_zero(cj.b - nv) for cj in conds)
                ctx.check(ok, 'C05.R', f, 'generation stops exactly when the next instant exceeds the last timestamp (strictly)',
                          witness={'stop guards': [repr(cj) for cj in conds],
                                   'why': 'with a non-strict stop the instant equal to the last timestamp is dropped'}, node=wl, key='stop')
            else:
                ok = any(cj.op == '<=' and isinstance(cj.a, Rat) and w.rel.is_zero(cj.a - nv) and vr(cj.b) == tfin for cj in conds)
                ctx.check(ok, 'C05.R', f, 'generation continues while the next instant is <= the last timestamp', witness={'guards': [repr(cj) for cj in conds]},
                          node=wl, key='continue')


def rule_Z(ctx):
    """C05.Z front ends: dispatch, forwarding, feature table reset"""
    f = ctx.prog.func(INT + '.resample')
    tr, delta, algo, mode = f.params[:4]
    w = Walker(f, loop_mode='skip')
    m = ctx.prog.module(INT)
    consts = {k: Rat.atom(k) for k in ('MODE_SPATIAL', 'MODE_TEMPORAL', 'ALGO_LINEAR')}
    for md, callee in (('MODE_TEMPORAL', '__resampleTemporal'), ('MODE_SPATIAL', '__resampleSpatial')):
        st = State({mode: Rat.atom(md), algo: Rat.atom('ALGO_LINEAR')})
        outs = [o for o in w.run(body_nodocstring(f), st) if o.kind in ('fall', 'return')]
        calls = [e for o in outs for e in o.state.events if e.kind == 'call' and e.name.startswith('__resample')]
        sel = [e for e in calls if not any(repr(c).startswith(('MODE_', 'ALGO_')) and '!=' not in repr(c) and False for c, _ in e.conds)]
        names = {e.name for e in calls if all(_cond_holds(c, md) for c, _ in e.conds)}
        ok = names == {callee} and all([vr(a) for a in e.args] == [tr, delta] for e in calls if e.name == callee)
        ctx.check(ok, 'C05.Z', f, 'mode %s with the linear algorithm runs %s(track, delta)' % (md, callee),
                  witness={'callees selected': sorted(names)}, node=f.node, key='dispatch:' + md)
    g = ctx.prog.func(TRACK + '.resample')
    formals = g.params[1:]
    if formals[:1] != ['delta'] or 'mode' not in formals or 'algo' not in formals or 'npts' not in formals:
        raise shape_error('Track.resample: parameters (delta, algo, mode, npts, ...) not found', g.loc())
    wg = Walker(g, loop_mode='skip')
    n_rec = n_dir = 0
    for o in wg.run(body_nodocstring(g), State()):
        if o.kind not in ('fall', 'return'):
            continue
        cs = [repr(cj) for c, _ in o.state.conds for cj in c.conjuncts()]
        evs = o.state.events
        rec = [e for e in evs if e.kind == 'call' and e.name == 'resample' and vr(e.recv) == 'self']
        direct = [e for e in evs if e.kind == 'call' and e.name == 'resample' and e.recv is None]
        if 'delta == None' in cs:
            n_rec += 1
            if len(rec) != 1 or direct:
                raise shape_error('Track.resample: the step-less call does not go through one second call of itself', g.loc())
            bound = {}
            for k_, a_ in enumerate(rec[0].args):
                bound[formals[k_]] = a_
            bound.update(rec[0].kwargs)
            ok = vr(bound.get('mode')) == 'mode' and vr(bound.get('algo')) == 'algo'
            ctx.check(ok, 'C05.Z', g, 'when the step is derived from npts/factor, mode and algorithm are forwarded to the second call',
                      witness={'call': unparse(rec[0].node), 'why': 'a dropped mode falls back to spatial resampling: a step in seconds is used as metres'},
                      node=rec[0].node, key='forward')
            d = bound.get('delta')
            spatial = 'mode == MODE_SPATIAL' in cs
            atoms = set(d.atoms()) if isinstance(d, Rat) else set()
            okd = ('self.length()' in atoms) == spatial and ('self.duration()' in atoms) == (not spatial) and isinstance(d, Rat)
            ctx.check(okd, 'C05.Z', g, 'a point count is turned into a step from the length (spatial) or the duration (temporal)',
                      witness={'path': cs, 'step passed': vr(d)}, node=rec[0].node, key='npts')
        elif 'delta != None' in cs:
            if not direct:
                continue          # the exit() arm for non-ENU data
            n_dir += 1
            okc = len(direct) == 1 and [vr(a_) for a_ in direct[0].args] == ['self', 'delta', 'algo', 'mode'] and not direct[0].kwargs
            ctx.check(okc, 'C05.Z', g, 'Track.resample passes (self, delta, algo, mode) to interpolation.resample(track, delta, algo, mode)',
                      witness={'call': unparse(direct[0].node)}, node=direct[0].node, key='call')
            rs = [e for e in evs if e.kind == 'store' and e.name == 'self.__analyticalFeaturesDico' and e.seq > direct[0].seq and
                  vr(e.value) in ('dict<{}>', 'dict()')]
            ctx.check(bool(rs), 'C05.Z', g, 'the feature table of the resampled track is reset (its observations are new)',
                      witness={'stores after the resampling': [repr(e) for e in evs if e.kind == 'store' and e.seq > direct[0].seq]}, node=direct[0].node, key='reset')
    if n_rec == 0 or n_dir == 0:
        raise shape_error('Track.resample: step-less / explicit-step paths not both found (%d, %d)' % (n_rec, n_dir), g.loc())


def _cond_holds(c, md):
    """evaluate a dispatch condition for mode == md, algo == ALGO_LINEAR (constants are distinct symbols)"""
    t = repr(c)
    if c.kind == 'cmp' and c.op in ('==', '!='):
        a, b = vr(c.a), vr(c.b)
        if {a, b} <= {'MODE_SPATIAL', 'MODE_TEMPORAL', 'ALGO_LINEAR', 'ALGO_THIN_SPLINES', 'ALGO_B_SPLINES', 'ALGO_GAUSSIAN_PROCESS'}:
            eq = a == b
            return eq if c.op == '==' else not eq
    return True


def rule_G(ctx):
    """C05.G Track.resample (linear; temporal and spatial) interpreted on irregular tracks against the piecewise-linear interpolant:
    requests as a number, a list of instants and a reference track; steps that do and do not divide the duration / length; instants
    before, on and after the ends; tracks with repeated positions and varying heights"""
    import datetime
    import math
    from .. import absint, orders, npstub
    TRACKQ = 'tracklib.core.track.Track'
    fr = ctx.prog.func(TRACKQ + '.resample')
    fn = absint.funcs(ctx, 'tracklib.core.track', dict(npstub.stubs()))

    def _exit(*a):
        raise orders.Raised('SystemExit', 'exit()')
    fn['exit'] = _exit
    T = absint.classref(ctx, TRACKQ, fn)
    OT = absint.classref(ctx, 'tracklib.core.obs_time.ObsTime', fn)
    mi = ctx.prog.module('tracklib.algo.interpolation')
    consts = {}
    for k in ('MODE_SPATIAL', 'MODE_TEMPORAL', 'ALGO_LINEAR'):
        v = mi.consts.get(k)
        if not isinstance(v, ast.Constant):
            raise anchor_error('constant %s not found' % k, 'tracklib.algo.interpolation')
        consts[k] = v.value

    # positions and observations are the repository's own ENUCoords / Obs objects (what resample() builds and reads)
    EN = absint.classref(ctx, 'tracklib.core.obs_coords.ENUCoords', fn)
    absint.classref(ctx, 'tracklib.core.obs.Obs', fn)
    fn['sqrt'], fn['hypot'] = math.sqrt, math.hypot

    def P(x, y, z=0.0):
        return EN(float(x), float(y), float(z))

    def O(position, timestamp=None):
        return absint.real_obs(ctx, fn, position, timestamp)

    def obs_view(o):
        """(position (E, N, U), timestamp) of an observation of a resampled track"""
        p_ = o.fields.get('position') if isinstance(o, orders.Obj) else None
        c_ = (p_.fields['E'], p_.fields['N'], p_.fields['U']) if isinstance(p_, orders.Obj) and 'E' in p_.fields else (float('nan'),) * 3
        return c_, o.fields.get('timestamp') if isinstance(o, orders.Obj) else None
    EPOCH_DEFAULT = (datetime.datetime(2021, 6, 10, 8, 0, 0) - datetime.datetime(1970, 1, 1)).total_seconds()
    EPOCH_NEW_YEAR = (datetime.datetime(2020, 12, 31, 23, 59, 50) - datetime.datetime(1970, 1, 1)).total_seconds()     # second 10 is 1 January 2021, 00:00:00.000
    E0 = [EPOCH_DEFAULT]

    def stamp(sec):
        d = datetime.datetime(1970, 1, 1) + datetime.timedelta(seconds=E0[0] + sec)
        return OT(d.year, d.month, d.day, d.hour, d.minute, d.second, int(round(d.microsecond / 1000.0)))

    def secs(ts):
        f = ts.fields
        try:
            d = datetime.datetime(int(f['year']), int(f['month']), int(f['day']), int(f['hour']), int(f['min']), int(f['sec']))
            if not 0 <= f['ms'] < 1000:
                raise ValueError('ms')
        except (ValueError, TypeError, OverflowError):
            # not a date of the calendar (month 13, second 60, negative field ...): no instant at all
            return float('nan')
        return (d - datetime.datetime(1970, 1, 1)).total_seconds() + f['ms'] / 1000.0 - E0[0]
    tracks = {
        'irregular sampling': ([(0, 0, 0), (10, 0, 5), (10, 20, 5), (40, 60, 35), (41, 60, 35)], [0.0, 4.0, 5.0, 15.0, 16.5]),
        'repeated position in the middle': ([(0, 0, 0), (6, 8, 10), (6, 8, 10), (12, 16, -4)], [0.0, 2.0, 7.0, 8.0]),
        'two fixes': ([(0, 0, 0), (30, 40, 100)], [0.0, 10.0]),
        'climbing track (3D length differs from 2D length)': ([(0, 0, 0), (3, 4, 12), (6, 8, 0), (9, 12, 40)], [0.0, 1.0, 2.0, 3.0]),
        'two fixes recorded at the same instant': ([(0, 0, 0), (6, 8, 0), (12, 16, 0), (12, 26, 5), (22, 26, 5)], [0.0, 2.0, 2.0, 6.0, 8.0]),
        'across New Year midnight (second 10 is 1 January, 00:00:00.000)': ([(0, 0, 0), (8, 6, 2), (8, 26, 2), (20, 42, 10), (20, 52, 10)], [0.0, 4.0, 10.0, 16.0, 20.0]),
        'starting at the epoch itself (1970-01-01 00:00:00.000), 2D length exactly 3': ([(0, 0, 0), (0.6, 0.8, 5), (0.6, 2.8, 5)], [0.0, 4.0, 10.0]),
        'first fix at a fraction of a second': ([(0, 0, 0), (4, 3, 1), (4, 13, 2), (16, 18, 0)], [0.25, 2.25, 5.75, 8.25]),
    }

    def build(pts, times):
        return T([O(P(*p_), stamp(tm)) for p_, tm in zip(pts, times)], 'u', 't')

    def lerp(pts, xs, a):
        """piecewise-linear interpolant of the vertices pts at abscissa a (xs strictly or weakly increasing)"""
        for i in range(1, len(xs)):
            if xs[i - 1] < a <= xs[i] or (i == 1 and a == xs[0]) or (i == len(xs) - 1 and xs[i] < a <= xs[i] + 1e-9 * max(1.0, abs(xs[i]))):
                if xs[i] == xs[i - 1]:
                    continue
                w = (a - xs[i - 1]) / (xs[i] - xs[i - 1])
                return tuple(p_ + w * (q_ - p_) for p_, q_ in zip(pts[i - 1], pts[i]))
        return None

    def near(u, v, tol=1e-6):
        # (instants are sums of floating-point seconds counted from 1970: a few 1e-7 s of rounding each, i.e. up to 1e-4 m at the speeds of these tracks)
        return u is not None and all(abs(a_ - b_) <= tol * max(1.0, abs(b_)) + 1e-4 for a_, b_ in zip(u, v))
    found = {}
    n_cases = 0

    def run(label, pts, times, request_desc, make_request, mode, want, zone=None):
        """want: list of (position, time) expected"""
        nonlocal n_cases
        n_cases += 1
        t = build(pts, times)
        if zone is not None:
            t.call('setTimeZone', zone)          # (the time zone is a label of the timestamps: it does not move the instants)
        given = list(t.fields['_Track__POINTS'])      # the caller's observations (a second track may hold the very same objects: Track % n, Track(list))
        case = {'track': label, 'vertices': [list(p_) for p_ in pts], 'times (s)': times, 'request': request_desc, 'mode': 'temporal' if mode == consts['MODE_TEMPORAL'] else 'spatial'}
        if zone is not None:
            case['time zone set on the track before resampling'] = zone
        try:
            t.call('resample', make_request(), consts['ALGO_LINEAR'], mode)
        except orders.Unsupported as ex:
            raise shape_error('Track.resample not interpretable: %s' % ex, fr.loc())
        except orders.PROGRAM_ERRORS as ex:
            found.setdefault((case['mode'], 'fails'), ('resampling does not fail', dict(case, exception='%s: %s' % (type(ex).__name__, str(ex)[:160]))))
            return
        got = [(obs_view(o)[0], secs(obs_view(o)[1])) for o in t.fields['_Track__POINTS']]
        names = t.call('getListAnalyticalFeatures')
        if len(got) != len(want):
            found.setdefault((case['mode'], 'count'), ('exactly one observation per requested abscissa inside the admitted range' if mode == consts['MODE_TEMPORAL'] else
                                                       'the first fix followed by one point per multiple of the step that fits the 2D length',
                                                       dict(case, **{'observations returned': len(got), 'expected': len(want), 'times returned': [round(g_[1], 3) for g_ in got], 'times expected': [round(w_[1], 3) for w_ in want]})))
            return
        for k, ((gp, gt), (wp, wt)) in enumerate(zip(got, want)):
            if not near(gp, wp) or not abs(gt - wt) <= 0.0015:       # (a timestamp that is no calendar date compares as NaN)
                found.setdefault((case['mode'], 'value'), ('every returned observation is the linear interpolation (x, y, z and time) between the two original fixes that bracket it',
                                                           dict(case, index=k, returned={'position': list(gp), 'time': round(gt, 4)}, expected={'position': [round(c_, 6) for c_ in wp], 'time': round(wt, 4)})))
                return
        if any(got[i][1] > got[i + 1][1] + 1e-9 for i in range(len(got) - 1)):
            found.setdefault((case['mode'], 'monotone'), ('timestamps of the result never decrease', dict(case, times=[g_[1] for g_ in got])))
        if names:
            found.setdefault((case['mode'], 'table'), ('the feature table is reset by resampling', dict(case, **{'features listed': names})))
        # the observations the track was built from are moved afterwards (another track holding them is translated): the samples stay where they are
        for o in given:
            p_ = o.fields.get('position')
            if isinstance(p_, orders.Obj) and 'E' in p_.fields:
                p_.fields['E'] += 1000.0
                p_.fields['N'] -= 500.0
        again = [(obs_view(o)[0], secs(obs_view(o)[1])) for o in t.fields['_Track__POINTS']]
        for k, ((gp, gt), (wp, wt)) in enumerate(zip(again, want)):
            if not near(gp, wp):
                found.setdefault((case['mode'], 'alias'), ('the samples are observations of their own: moving, afterwards, the observations the track was made of (held by another track) does not move a sample',
                                                           dict(case, index=k, history='after resampling, the original observation objects are translated by (+1000, -500)',
                                                                returned={'position': list(gp)}, expected={'position': [round(c_, 6) for c_ in wp]})))
                break
    TEMP, SPAT = consts['MODE_TEMPORAL'], consts['MODE_SPATIAL']
    for label, (pts, times) in tracks.items():
        E0[0] = EPOCH_NEW_YEAR if 'New Year' in label else (0.0 if 'epoch itself' in label else EPOCH_DEFAULT)
        dur = times[-1] - times[0]
        # temporal: numeric steps (dividing the duration, not dividing it, longer than it), lists and a reference track
        # (... a step given as an int, steps whose multiples come within half a millisecond of the next whole second)
        for step in (dur / 4.0, dur / 3.0 + 0.1, dur, dur * 1.5, 1.0, 2, 1) + ((0.3333, 0.4999) if label in ('irregular sampling', 'first fix at a fraction of a second') else ()):
            inst = []
            x = times[0]
            while x <= times[-1] + 1e-9:
                inst.append(x)
                x += step
            want = [(lerp(pts, times, a), a) for a in inst if times[0] < a <= times[-1] + 1e-9]
            run(label, pts, times, 'every %.4g s' % step, lambda step=step: step, TEMP, want)
        class F64(float):
            """a float subclass (what numpy.float64 is)"""
        stepf = dur / 4.0
        inst = [times[0] + k * stepf for k in range(5)]
        run(label, pts, times, 'every %.4g s, the step given as a numpy.float64-like float subclass' % stepf, lambda stepf=stepf: F64(stepf), TEMP,
            [(lerp(pts, times, a), a) for a in inst if times[0] < a <= times[-1] + 1e-9])
        lists = [[times[0] - 5, times[0], times[0] + 0.5, (times[0] + times[-1]) / 2, times[-1], times[-1] + 3],
                 [t_ for t_ in times], [times[-1]], [times[0] - 2, times[0] - 1], [times[-1] + 1, times[-1] + 2], [times[0] + 0.25]]
        if E0[0] == 0.0:
            # (instants before 1970 are outside the calendar the library supports: not requested on the track that starts at the epoch)
            lists = [[a for a in inst if a >= 0.0] for inst in lists]
            lists = [inst for inst in lists if inst]
        for inst in lists:
            want = [(lerp(pts, times, a), a) for a in inst if times[0] < a <= times[-1]]
            run(label, pts, times, 'list of instants %r' % ([round(a, 3) for a in inst],), lambda inst=inst: [stamp(a) for a in inst], TEMP, want)
        ref = [times[0] + 0.5 * k for k in range(0 if E0[0] == 0.0 else -1, int(2 * dur) + 3)]
        want = [(lerp(pts, times, a), a) for a in ref if times[0] < a <= times[-1]]
        run(label, pts, times, 'reference track sampled every 0.5 s from 0.5 s before to 1 s after', lambda ref=ref: build([(0, 0, 0)] * len(ref), ref), TEMP, want)
        # spatial: steps on the 2D polyline
        S = [0.0]
        for i in range(1, len(pts)):
            S.append(S[-1] + math.hypot(pts[i][0] - pts[i - 1][0], pts[i][1] - pts[i - 1][1]))
        full = [tuple(p_) + (tm,) for p_, tm in zip(pts, times)]
        # (decimal steps that divide the length in exact arithmetic but not in binary: 3 / 0.1 is 30.000000000000004)
        for ds in (S[-1] / 4.0, S[-1] / 3.0 + 0.01, S[-1] * 0.999, S[-1] * 2, 3.0) + ((0.1, 0.2, 0.05, 0.3) if 'length exactly 3' in label else ()):
            nstep = int((S[-1] - S[0]) / ds + 1e-12)
            want = [(tuple(pts[0]), times[0])]
            for k in range(1, nstep + 1):
                v = lerp(full, S, k * ds)
                if v is None:
                    want = None
                    break
                want.append((v[:3], v[3]))
            if want is None:
                continue
            run(label, pts, times, 'every %.4g m along the 2D polyline (length %.4g)' % (ds, S[-1]), lambda ds=ds: ds, SPAT, want)
    E0[0] = EPOCH_DEFAULT
    # a track whose timestamps carry a time zone (setTimeZone): the samples are stamped with the same instants
    if 'setTimeZone' in ctx.prog.cls('tracklib.core.track.Track').methods:
        pts, times = tracks['irregular sampling']
        dur = times[-1] - times[0]
        S = [0.0]
        for i in range(1, len(pts)):
            S.append(S[-1] + math.hypot(pts[i][0] - pts[i - 1][0], pts[i][1] - pts[i - 1][1]))
        full = [tuple(p_) + (tm,) for p_, tm in zip(pts, times)]
        for zone in (2, -5):
            step = dur / 4.0
            inst = [times[0] + k * step for k in range(5)]
            run('irregular sampling', pts, times, 'every %.4g s' % step, lambda step=step: step, TEMP,
                [(lerp(pts, times, a), a) for a in inst if times[0] < a <= times[-1] + 1e-9], zone=zone)
            ds = S[-1] / 4.0
            want = [(tuple(pts[0]), times[0])] + [(lerp(full, S, k * ds)[:3], lerp(full, S, k * ds)[3]) for k in range(1, 5) if lerp(full, S, k * ds) is not None]
            run('irregular sampling', pts, times, 'every %.4g m along the 2D polyline' % ds, lambda ds=ds: ds, SPAT, want, zone=zone)
    # a step AND a number of points: the step has priority (as documented)
    for label in ('irregular sampling', 'two fixes'):
        pts, times = tracks[label]
        dur = times[-1] - times[0]
        for step, npts in ((dur / 4.0, 2), (dur / 3.0 + 0.1, 7)):
            inst = []
            x = times[0]
            while x <= times[-1] + 1e-9:
                inst.append(x)
                x += step
            want = [(lerp(pts, times, a), a) for a in inst if times[0] < a <= times[-1] + 1e-9]
            n_cases += 1
            t = build(pts, times)
            case = {'track': label, 'vertices': [list(p_) for p_ in pts], 'times (s)': times, 'request': 'resample(delta=%.4g, mode=temporal, npts=%d): the step has priority' % (step, npts)}
            try:
                t.call('resample', step, consts['ALGO_LINEAR'], consts['MODE_TEMPORAL'], npts)
                got = [(obs_view(o)[0], secs(obs_view(o)[1])) for o in t.fields['_Track__POINTS']]
            except orders.Unsupported as ex:
                raise shape_error('Track.resample not interpretable: %s' % ex, fr.loc())
            except orders.PROGRAM_ERRORS as ex:
                found.setdefault(('temporal', 'fails'), ('resampling does not fail', dict(case, exception='%s: %s' % (type(ex).__name__, str(ex)[:160]))))
                continue
            if len(got) != len(want) or any(not near(g_[0], w_[0]) or not abs(g_[1] - w_[1]) <= 0.0015 for g_, w_ in zip(got, want)):
                found.setdefault(('temporal', 'both'), ('when a step and a number of points are both given, the step decides the abscissas',
                                                        dict(case, **{'times returned': [round(g_[1], 3) for g_ in got], 'times expected': [round(w_[1], 3) for w_ in want]})))
    # a track that carries an 'abs_curv' feature computed for an earlier geometry: the samples follow the CURRENT geometry
    pts, times = tracks['irregular sampling']
    S = [0.0]
    for i in range(1, len(pts)):
        S.append(S[-1] + math.hypot(pts[i][0] - pts[i - 1][0], pts[i][1] - pts[i - 1][1]))
    full = [tuple(p_) + (tm,) for p_, tm in zip(pts, times)]
    ds = S[-1] / 5.0

    def with_stale():
        t = build(pts, times)
        t.call('createAnalyticalFeature', 'abs_curv', [0.0, 1.0, 2.0, 3.0, 4.0])
        return t
    n_cases += 1
    t = with_stale()
    try:
        t.call('resample', ds, consts['ALGO_LINEAR'], SPAT)
        got = [(obs_view(o)[0], secs(obs_view(o)[1])) for o in t.fields['_Track__POINTS']]
        want = [(tuple(pts[0]), times[0])] + [(lerp(full, S, k * ds)[:3], lerp(full, S, k * ds)[3]) for k in range(1, int(S[-1] / ds + 1e-12) + 1)]
        if len(got) != len(want) or any(not near(g_[0], w_[0]) for g_, w_ in zip(got, want)):
            found.setdefault(('spatial', 'stale'), ('the abscissas are those of the current geometry, whatever features the track carries',
                                                    {'track': 'irregular sampling, carrying an abs_curv feature [0, 1, 2, 3, 4] left from an earlier geometry', 'step': ds,
                                                     'positions returned': [list(g_[0]) for g_ in got][:6], 'expected': [[round(c_, 4) for c_ in w_[0]] for w_ in want][:6]}))
    except orders.Unsupported as ex:
        raise shape_error('Track.resample not interpretable: %s' % ex, fr.loc())
    except orders.PROGRAM_ERRORS as ex:
        found.setdefault(('spatial', 'fails'), ('resampling does not fail', {'track': 'irregular sampling with an abs_curv feature', 'exception': '%s: %s' % (type(ex).__name__, str(ex)[:160])}))
    # number of points instead of a step: the step is derived in the unit of the requested mode
    for mode, extent in ((TEMP, times[-1] - times[0]), (SPAT, None)):
        n_cases += 1
        t = build(pts, times)
        try:
            t.call('resample', None, consts['ALGO_LINEAR'], mode, 4)
            got = [(obs_view(o)[0], secs(obs_view(o)[1])) for o in t.fields['_Track__POINTS']]
        except orders.Unsupported as ex:
            raise shape_error('Track.resample not interpretable: %s' % ex, fr.loc())
        except orders.PROGRAM_ERRORS as ex:
            found.setdefault(('temporal' if mode == TEMP else 'spatial', 'fails'), ('resampling does not fail', {'request': 'npts=4', 'exception': '%s: %s' % (type(ex).__name__, str(ex)[:160])}))
            continue
        if mode == TEMP:
            step = (1 + 1e-8) * extent / 4
            # (whether the 4th sample, which falls on the last instant up to the 1e-8 margin, is produced depends on float rounding of epoch seconds: either is accepted)
            want = [(lerp(pts, times, min(times[0] + k * step, times[-1])), times[0] + k * step) for k in range(1, 5)]
            want = want[:len(got)] if len(got) in (3, 4) else want
            if len(got) != len(want) or any(not near(g_[0], w_[0], 1e-5) or abs(g_[1] - w_[1]) > 0.0015 for g_, w_ in zip(got, want)):
                found.setdefault(('temporal', 'npts'), ('with a number of points instead of a step, the step is the duration divided by that number - in seconds, in temporal mode',
                                                        {'request': 'resample(npts=4, mode=temporal)', 'times returned': [round(g_[1], 3) for g_ in got], 'expected': [round(w_[1], 3) for w_ in want]}))
    for (mode, key), (desc, wit) in sorted(found.items()):
        ctx.violation('C05.G', fr, '%s resampling: %s' % (mode, desc), wit, node=fr.node, key='%s:%s' % (mode, key))
    for mode in ('temporal', 'spatial'):
        if not any(m_ == mode for m_, _ in found):
            ctx.ok('C05.G', fr, '%s linear resampling agrees with the piecewise-linear interpolant (count, positions, heights, instants, monotone times, table reset)' % mode, node=fr.node)
    ctx.extra['C05.G cases'] = n_cases


RULES = [
    ('C05.G', rule_G, 'quick'),
]
# the statement-level rules (weights identity, bracket scan, request preparation, table reset: rule_W/T/L/R/Z/I) are no longer run:
# C05.G decides the same clauses on what resample() returns and does not depend on how the loops are written (C05-R5/R6)
MIN_OBLIGATIONS = 2
