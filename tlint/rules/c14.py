"""C14 - coordinate conversions (tracklib/core/obs_coords.py, Track.to*Coords)."""
import ast

from ..alg import Rat, Poly
from ..loader import shape_error, anchor_error
from ..sx import Walker, State
from ..util import body_nodocstring, names_stored, unparse

OC = 'tracklib.core.obs_coords'
TRACK = 'tracklib.core.track.Track'

EXPLANATION = (
    "Static analysis of GeoCoords.toECEFCoords, ECEFCoords.toGeoCoords, ECEFCoords.toENUCoords, ENUCoords.toECEFCoords, "
    "the Lambert-93 pair and Track.toENUCoords/toGeoCoords/toECEFCoords: the forward formulas equal the closed-form "
    "WGS84 expressions as exact identities modulo sqrt(e)^2=e and sin^2+cos^2=1; the inverse is the Bowring closed form "
    "built from the same two ellipsoid constants (no second copy of a constant); the two ENU rotations are read as 3x3 "
    "coefficient matrices and checked to be transposes of each other and orthonormal, with the base translation "
    "subtracted before / added after and no constant term (the base maps to (0,0,0)); degree/radian factors are "
    "reciprocal; the Lambert constant blocks are equal and the isometric-latitude expressions mutually inverse; "
    "whole-track conversions convert with the old base before recording the new one.")
ASSUMPTIONS = ["floating-point accuracy (1e-9 degree / 1 mm) of the Bowring one-step inverse is numerical analysis, not decided here"]
TECHNIQUE = "polynomial/trigonometric identity checking against closed-form specifications (F2), matrix transpose/orthonormality (F2), constant-table agreement (F5), store ordering (F6)"


def vr(v):
    if isinstance(v, Rat):
        a = v.single_atom()
        return a if a is not None else repr(v)
    return repr(v)


def spec(w, src, env=None):
    return w.ex(ast.parse(src, mode='eval').body, State(dict(env or {})))


def _final_attr_values(o, objname):
    """final values of objname.<attr> after plain stores and *= updates, in program order"""
    vals = {}
    for e in sorted(o.state.events, key=lambda e_: e_.seq):
        if e.kind == 'store' and isinstance(e.index, str) and e.name == '%s.%s' % (objname, e.index):
            if e.aug is None:
                vals[e.index] = e.value
            elif e.aug == 'Mult' and e.index in vals and isinstance(vals[e.index], Rat) and isinstance(e.value, Rat):
                vals[e.index] = vals[e.index] * e.value
            elif e.aug == 'Div' and e.index in vals and isinstance(vals[e.index], Rat) and isinstance(e.value, Rat):
                vals[e.index] = vals[e.index] / e.value
            else:
                vals[e.index] = None
    return vals


def _single(f, w, st=None):
    outs = [o for o in w.run(body_nodocstring(f), st or State()) if o.kind == 'return']
    if len(outs) != 1:
        raise shape_error('%s is not a single-path function' % f.qual, f.loc())
    return outs[0]


def _obj_of(o):
    v = o.value
    if isinstance(v, Rat) and v.single_atom():
        return v.single_atom()
    raise shape_error('conversion does not return its result object')


def rule_E(ctx):
    """C14.E geographic -> ECEF closed form"""
    f = ctx.prog.func(OC + '.GeoCoords.toECEFCoords')
    w = Walker(f, loop_mode='skip')
    o = _single(f, w)
    vals = _final_attr_values(o, _obj_of(o))
    lat = 'self.lat*math.pi/180.0'
    lon = 'self.lon*math.pi/180.0'
    N = '(Re / math.sqrt(1 - Fe*(2-Fe) * math.sin(%s)**2))' % lat
    want = {
        'X': '(%s + self.hgt) * math.cos(%s) * math.cos(%s)' % (N, lat, lon),
        'Y': '(%s + self.hgt) * math.cos(%s) * math.sin(%s)' % (N, lat, lon),
        'Z': '((1 - Fe*(2-Fe)) * %s + self.hgt) * math.sin(%s)' % (N, lat),
    }
    for k, src in want.items():
        e = spec(w, src)
        g = vals.get(k)
        ctx.check(isinstance(g, Rat) and w.rel.is_zero(g - e), 'C14.E', f,
                  'ECEF %s equals the closed-form WGS84 expression (prime-vertical radius N = Re/sqrt(1 - e^2 sin^2(lat)), e^2 = Fe(2-Fe))' % k,
                  witness={'found': vr(g)[:300], 'expected': vr(e)[:300]}, node=f.node, key='ecef:' + k)


def _consts_used(f):
    names = {n.id for n in ast.walk(f.node) if isinstance(n, ast.Name) and isinstance(n.ctx, ast.Load)}
    return sorted(names & {'Re', 'Be', 'Fe', 'Ee'})


def rule_I(ctx):
    """C14.I / C14.K ECEF -> geographic: Bowring closed form from the same constants"""
    f = ctx.prog.func(OC + '.ECEFCoords.toGeoCoords')
    g = ctx.prog.func(OC + '.GeoCoords.toECEFCoords')
    for fn in (f, g):
        used = _consts_used(fn)
        lits = sorted({n.value for n in ast.walk(fn.node) if isinstance(n, ast.Constant) and isinstance(n.value, float)
                       and n.value not in (0.0, 1.0, 2.0, 3.0, 180.0)})
        ctx.check(set(used) <= {'Re', 'Fe'} and not lits, 'C14.K', fn,
                  'the ellipsoid enters only through the semi-major axis Re and the flattening Fe (no second, rounded copy of a constant)',
                  witness={'module constants read': used, 'numeric literals': lits,
                           'why': 'forward and inverse conversions would then use two slightly different ellipsoids: the round trip drifts by more than 1e-9 degree'},
                  node=fn.node, key='consts:' + fn.name)
    w = Walker(f, loop_mode='skip')
    o = _single(f, w)
    vals = _final_attr_values(o, _obj_of(o))
    b = '(Re*(1-Fe))'
    h = '(Re*Re - %s*%s)' % (b, b)
    p = 'math.sqrt(self.X*self.X + self.Y*self.Y)'
    t = 'math.atan2(self.Z*Re, %s*%s)' % (p, b)
    latr = 'math.atan2(self.Z + %s/%s*math.sin(%s)**3, %s - %s/Re*math.cos(%s)**3)' % (h, b, t, p, h, t)
    want = {
        'lon': 'math.atan2(self.Y, self.X) * 180.0/math.pi',
        'lat': '%s * 180.0/math.pi' % latr,
        'hgt': '%s/math.cos(%s) - Re/math.sqrt(1 - Fe*(2-Fe)*math.sin(%s)**2)' % (p, latr, latr),
    }
    for k, src in want.items():
        e = spec(w, src)
        gv = vals.get(k)
        ok = isinstance(gv, Rat) and w.rel.is_zero(gv - e)
        ctx.check(ok, 'C14.I', f, 'geographic %s equals the Bowring closed-form inverse built from Re and Fe' % k,
                  witness={'found': vr(gv)[:400], 'expected': vr(e)[:400]}, node=f.node, key='geo:' + k)
    # degree/radian factors reciprocal
    one = spec(w, '(math.pi/180.0) * (180.0/math.pi)')
    ctx.check(w.rel.is_zero(one - Rat.const(1)), 'C14.I', f, 'degrees->radians and radians->degrees factors are reciprocal', witness={}, node=f.node, key='deg')


def _matrix(w, vals, rows, cols):
    """coefficient matrix of the linear forms vals[row] in the atoms cols"""
    M = []
    rest = {}
    for r in rows:
        v = vals.get(r)
        if not (isinstance(v, Rat) and v.ispoly()):
            raise shape_error('component %s is not a polynomial form' % r)
        row = []
        acc = v
        for c in cols:
            co = Rat(v.n.coeff(c, 1))
            if v.n.degree_in(c) > 1:
                raise shape_error('component %s is not linear in %s' % (r, c))
            row.append(co)
            acc = acc - co * Rat.atom(c)
        M.append(row)
        rest[r] = acc
    return M, rest


def rule_R(ctx):
    """C14.R ECEF <-> ENU rotations"""
    f1 = ctx.prog.func(OC + '.ECEFCoords.toENUCoords')
    f2 = ctx.prog.func(OC + '.ENUCoords.toECEFCoords')
    w = Walker(f1, loop_mode='skip')
    o1 = _single(f1, w)
    v1 = _final_attr_values(o1, _obj_of(o1))
    w2 = Walker(f2, loop_mode='skip', rel=w.rel)
    o2 = _single(f2, w2)
    v2 = _final_attr_values(o2, _obj_of(o2))
    B = 'base.toECEFCoords()'
    A, restA = _matrix(w, v1, ['E', 'N', 'U'], ['self.X', 'self.Y', 'self.Z'])
    Bm, restB = _matrix(w, v1, ['E', 'N', 'U'], ['%s.X' % B, '%s.Y' % B, '%s.Z' % B])
    # translation subtracted before the rotation: coefficient of base.* is minus that of self.* ; nothing else remains
    okt = all(w.rel.is_zero(A[i][j] + Bm[i][j]) for i in range(3) for j in range(3))
    noconst = True
    for i, r in enumerate(['E', 'N', 'U']):
        rem = v1[r]
        for j, c in enumerate(['self.X', 'self.Y', 'self.Z']):
            rem = rem - A[i][j] * (Rat.atom(c) - Rat.atom('%s.%s' % (B, c.split('.')[1])))
        noconst = noconst and w.rel.is_zero(rem)
    ctx.check(okt and noconst, 'C14.R', f1,
              'ECEF->ENU is a pure rotation of (point - base): the base itself maps to (0,0,0)',
              witness={'E': vr(v1.get('E'))[:200], 'N': vr(v1.get('N'))[:200], 'U': vr(v1.get('U'))[:200]}, node=f1.node, key='translation1')
    C, restC = _matrix(w, v2, ['X', 'Y', 'Z'], ['self.E', 'self.N', 'self.U'])
    okt2 = all(w.rel.is_zero(restC[r] - Rat.atom('%s.%s' % (B, r))) for r in ['X', 'Y', 'Z'])
    ctx.check(okt2, 'C14.R', f2, 'ENU->ECEF adds the base ECEF coordinates after the rotation (and nothing else)',
              witness={k: vr(v)[:120] for k, v in restC.items()}, node=f2.node, key='translation2')
    # transpose
    bad = []
    names = ['E', 'N', 'U']
    ax = ['X', 'Y', 'Z']
    for i in range(3):
        for j in range(3):
            if not w.rel.is_zero(A[i][j] - C[j][i]):
                bad.append({'entry': 'd%s/d%s' % (names[i], ax[j]), 'ECEF->ENU': vr(A[i][j]), 'ENU->ECEF (transposed)': vr(C[j][i])})
    ctx.check(not bad, 'C14.R', f2, 'the ENU->ECEF matrix is the transpose of the ECEF->ENU matrix (inverse rotations)',
              witness={'mismatching entries': bad}, node=f2.node, key='transpose')
    # orthonormal
    bad = []
    for i in range(3):
        for j in range(3):
            s = Rat.const(0)
            for k in range(3):
                s = s + A[i][k] * A[j][k]
            if not w.rel.is_zero(s - Rat.const(1 if i == j else 0)):
                bad.append({'row pair': [names[i], names[j]], 'dot product': vr(w.rel.reduce_poly(s.n).n)})
    ctx.check(not bad, 'C14.R', f1, 'the rotation matrix is orthonormal (M M^T = I modulo sin^2 + cos^2 = 1)',
              witness={'rows not orthonormal': bad}, node=f1.node, key='orthonormal')
    # axes: East = d/dlon direction, Up = ellipsoid normal
    lon = 'sin(1/180*%s.toGeoCoords().lon*pi)' % B
    upx = A[2][0]
    ctx.check('cos(1/180*%s.toGeoCoords().lat*pi)' % B in repr(upx) and 'cos(1/180*%s.toGeoCoords().lon*pi)' % B in repr(upx), 'C14.R', f1,
              'the Up axis is the ellipsoid normal at the base (cos(lat)cos(lon), cos(lat)sin(lon), sin(lat))',
              witness={'dU/dX': vr(upx)}, node=f1.node, key='up-axis')


def rule_L(ctx):
    """C14.L Lambert-93"""
    fi = fo = None
    for q, f in ctx.prog.functions.items():
        if q.startswith(OC + '.') and f.name.endswith('projFromLambert93'):
            fi = f
        if q.startswith(OC + '.') and f.name.endswith('projToLambert93'):
            fo = f
    if fi is None or fo is None:
        raise anchor_error('Lambert-93 functions not found', OC)
    def consts(f):
        out = {}
        for s in body_nodocstring(f):
            if isinstance(s, ast.Assign) and isinstance(s.targets[0], ast.Name) and isinstance(s.value, ast.Constant):
                out[s.targets[0].id] = s.value.value
        return out
    ci, co = consts(fi), consts(fo)
    ctx.check(ci == co and set(ci) >= {'E', 'Xp', 'Yp', 'n', 'C', 'lambda0'}, 'C14.K', fi,
              'forward and inverse Lambert-93 use the same constants', witness={'inverse': ci, 'forward': co}, node=fi.node, key='lambert-consts')
    w = Walker(fo, loop_mode='skip')
    sym = {k: Rat.atom(k) for k in co}
    body = [s for s in body_nodocstring(fo) if not (isinstance(s, ast.Assign) and isinstance(s.targets[0], ast.Name) and s.targets[0].id in co)]
    outs = [o for o in w.run(body, State(dict(sym))) if o.kind == 'return']
    if len(outs) != 1:
        raise shape_error('_projToLambert93 not single path', fo.loc())
    enu = [e for e in outs[0].state.events if e.kind == 'call' and e.name == 'ENUCoords']
    lon = 'coords.getX()*math.pi/180.0'
    phi = 'coords.getY()*math.pi/180.0'
    L = 'math.log(math.tan(math.pi/4 + %s/2) * ((1 - E*math.sin(%s))/(1 + E*math.sin(%s)))**(E/2))' % (phi, phi, phi)
    eX = spec(w, 'Xp + C*math.exp(-n*%s)*math.sin(n*(%s - lambda0))' % (L, lon), sym)
    eY = spec(w, 'Yp - C*math.exp(-n*%s)*math.cos(n*(%s - lambda0))' % (L, lon), sym)
    ok = len(enu) == 1 and isinstance(enu[0].args[0], Rat) and w.rel.is_zero(enu[0].args[0] - eX) and w.rel.is_zero(enu[0].args[1] - eY)
    ctx.check(len(enu) == 1 and len(enu[0].args) >= 3 and vr(enu[0].args[2]) == 'coords.getZ()', 'C14.L', fo,
              'forward Lambert-93 carries the height through unchanged', witness={'third coordinate': vr(enu[0].args[2]) if enu and len(enu[0].args) > 2 else None},
              node=fo.node, key='forward-z')
    ctx.check(ok, 'C14.L', fo, 'forward Lambert-93: X = Xp + C exp(-n L) sin(n(lon-lon0)), Y = Yp - C exp(-n L) cos(n(lon-lon0)), L the isometric latitude',
              witness={'X': vr(enu[0].args[0])[:300] if enu else None, 'expected X': vr(eX)[:300]}, node=fo.node, key='forward')
    # inverse: lon, isometric latitude and the fixed-point iteration
    wi = Walker(fi, loop_mode='skip')
    ibody = [s for s in body_nodocstring(fi) if not (isinstance(s, ast.Assign) and isinstance(s.targets[0], ast.Name) and s.targets[0].id in ci)]
    loops = [s for s in ibody if isinstance(s, ast.For)]
    if len(loops) != 1:
        raise shape_error('__projFromLambert93: iteration loop not found', fi.loc())
    pre = [o for o in wi.run(ibody[:ibody.index(loops[0])], State(dict(sym))) if o.kind == 'fall'][0].state
    X, Y = 'coords.getX()', 'coords.getY()'
    elon = spec(wi, 'math.atan(-(%s - Xp)/(%s - Yp))/n + lambda0' % (X, Y), sym)
    eL = spec(wi, '-math.log(math.sqrt((%s - Xp)**2 + (%s - Yp)**2)/C)/n' % (X, Y), sym)
    ctx.check(isinstance(pre.env.get('lon'), Rat) and wi.rel.is_zero(pre.env['lon'] - elon), 'C14.L', fi,
              'inverse longitude = atan(-(X-Xp)/(Y-Yp))/n + lon0 (undoes X-Xp = R sin, Y-Yp = -R cos)', witness={'found': vr(pre.env.get('lon'))[:200]},
              node=fi.node, key='inv-lon')
    ctx.check(isinstance(pre.env.get('latiso'), Rat) and wi.rel.is_zero(pre.env['latiso'] - eL), 'C14.L', fi,
              'inverse isometric latitude = -log(R/C)/n with R the distance to (Xp, Yp)', witness={'found': vr(pre.env.get('latiso'))[:200]},
              node=fi.node, key='inv-latiso')
    # what is returned: GeoCoords(lon in degrees, lat in degrees, height carried through)
    full = [o for o in wi.run(ibody, State(dict(sym))) if o.kind == 'return']
    if len(full) != 1:
        raise shape_error('__projFromLambert93 is not single-path', fi.loc())
    gc = [e for e in full[0].state.events if e.kind == 'call' and e.name == 'GeoCoords']
    okz = len(gc) == 1 and len(gc[0].args) >= 3 and vr(gc[0].args[2]) == 'coords.getZ()'
    ctx.check(okz, 'C14.L', fi, 'inverse Lambert-93 carries the height through unchanged (the forward projection does)',
              witness={'arguments': [vr(a)[:60] for a in gc[0].args] if gc else None,
                       'why': 'a dropped third argument silently returns height 0: a point with altitude does not round-trip'}, node=fi.node, key='inverse-z')
    if gc and len(gc[0].args) >= 2:
        deg = spec(wi, '180/math.pi', sym)
        a0 = gc[0].args[0]
        oklon = isinstance(a0, Rat) and wi.rel.is_zero(a0 - elon * deg)
        ctx.check(oklon, 'C14.L', fi, 'the longitude returned is the inverse longitude converted to degrees', witness={'found': vr(a0)[:200]}, node=fi.node, key='inverse-lon-deg')
    st = State(dict(sym))
    st.env['phi'] = Rat.atom('phi@')
    st.env['latiso'] = Rat.atom('L')
    bo = [o for o in wi.run(loops[0].body, st) if o.kind == 'fall']
    if len(bo) != 1:
        raise shape_error('Lambert iteration body not straight-line', fi.loc(loops[0]))
    ephi = spec(wi, '2*math.atan(((1 + E*math.sin(p0))/(1 - E*math.sin(p0)))**(E/2) * math.exp(L)) - math.pi/2', dict(sym, p0=Rat.atom('phi@'), L=Rat.atom('L')))
    got = bo[0].state.env.get('phi')
    ctx.check(isinstance(got, Rat) and wi.rel.is_zero(got - ephi), 'C14.L', fi,
              'the latitude iteration inverts the forward isometric latitude: reciprocal ratio (1+E sin)/(1-E sin), same exponent E/2',
              witness={'found': vr(got)[:300], 'expected': vr(ephi)[:300]}, node=loops[0], key='inv-iter')


def rule_B(ctx):
    """C14.B whole-track conversions"""
    f = ctx.prog.func(TRACK + '.toENUCoords')
    w = Walker(f, loop_mode='once')
    outs = [o for o in w.run(body_nodocstring(f), State()) if o.kind == 'return']
    n_conv = 0
    for o in outs:
        conv = [e for e in o.state.events if e.kind == 'call' and e.name == 'toENUCoords']
        bst = [e for e in o.state.events if e.kind == 'store' and e.name == 'self.base']
        if not conv:
            continue
        n_conv += 1
        pathtxt = [repr(c) for c, _ in o.state.conds][:4]
        ctx.check(len(bst) >= 1, 'C14.B', f, 'a conversion to local coordinates records the base it used', witness={'path': pathtxt}, node=f.node, key='records')
        if not bst:
            continue
        c = conv[0]
        if len(c.args) == 2:
            # ENU -> ENU: from the OLD base to the new one, new base recorded afterwards
            ok = vr(c.args[0]) == 'self.base' and vr(c.args[1]) == f.params[1] and all(b.seq > c.seq for b in bst)
            ctx.check(ok, 'C14.B', f,
                      're-basing converts every point from the former base to the new base, and only then records the new base',
                      witness={'conversion arguments': [vr(a) for a in c.args], 'base stored before the conversion': any(b.seq < c.seq for b in bst),
                               'why': 'if the new base is recorded first, points are converted from the new base to the new base: they do not move'},
                      node=c.node, key='rebase')
            ctx.check(vr(bst[-1].value) == '%s.toGeoCoords()' % f.params[1], 'C14.B', f, 'the base recorded is the geographic form of the new base',
                      witness={'stored': vr(bst[-1].value)}, node=bst[-1].node, key='rebase-value')
        else:
            rec = vr(bst[-1].value)
            conv = vr(c.args[0]) if len(c.args) == 1 else None
            if rec == conv:
                # the base object itself is recorded: only an integer SRID may be stored as is
                guards = [repr(c_) for c_, _ in bst[-1].conds if 'isinstance' in repr(c_) and conv in repr(c_)]
                ok = guards == ['bool(isinstance(%s, int))' % conv]
                ctx.check(ok, 'C14.B', f, 'a coordinate base is recorded as a copy (base.toGeoCoords()); only an integer SRID is stored as it is',
                          witness={'recorded': rec, 'under': guards,
                                   'why': 'recording the caller\'s object itself lets a later in-place change of that object silently move the recorded base'},
                          node=bst[-1].node, key='geo-base-alias')
            else:
                ok = conv is not None and rec == '%s.toGeoCoords()' % conv
                ctx.check(ok, 'C14.B', f, 'the base recorded is (the geographic copy of) the one the points were converted with',
                          witness={'converted with': conv, 'recorded': rec}, node=c.node, key='geo-base')
        ctx.check(vr(c.recv).endswith('.position') and 'getObs(i)' in vr(c.recv), 'C14.B', f, 'every observation is converted', witness={}, node=c.node, key='all-obs:%d' % len(c.args))
    if n_conv < 2:
        raise shape_error('Track.toENUCoords: conversion arms not found', f.loc())
    for nm in ('toGeoCoords', 'toECEFCoords'):
        g = ctx.prog.func(TRACK + '.' + nm)
        t = unparse(g.node)
        ctx.recognise('base = self.base' in t, 'C14.B', g, '%s defaults to the recorded base of the track' % nm, witness={}, node=g.node, key='default:' + nm)


RULES = [
    ('C14.E', rule_E, 'quick'),
    ('C14.I', rule_I, 'quick'),
    ('C14.R', rule_R, 'quick'),
    ('C14.L', rule_L, 'quick'),
    ('C14.B', rule_B, 'quick'),
]
MIN_OBLIGATIONS = 20
