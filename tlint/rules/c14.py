"""C14 - coordinate conversions (tracklib/core/obs_coords.py, Track.to*Coords)."""
import ast

from ..alg import Rat, Poly
from ..loader import shape_error, anchor_error
from ..sx import Walker, State
from ..util import body_nodocstring, names_stored, unparse

OC = 'tracklib.core.obs_coords'
TRACK = 'tracklib.core.track.Track'

EXPLANATION = (
    "Static analysis of GeoCoords.toECEFCoords, ECEFCoords.toGeoCoords, ECEFCoords.toENUCoords, ENUCoords.toECEFCoords, "
    "the Lambert-93 pair and Track.toENUCoords/toGeoCoords/toECEFCoords: the forward formulas equal the closed-form "
    "WGS84 expressions as exact identities modulo sqrt(e)^2=e and sin^2+cos^2=1; the inverse is the Bowring closed form "
    "built from the same two ellipsoid constants (no second copy of a constant); the two ENU rotations are read as 3x3 "
    "coefficient matrices and checked to be transposes of each other and orthonormal, with the base translation "
    "subtracted before / added after and no constant term (the base maps to (0,0,0)); degree/radian factors are "
    "reciprocal; the Lambert constant blocks are equal and the isometric-latitude expressions mutually inverse; "
    "whole-track conversions convert with the old base before recording the new one.  Every clause is decided by C14.N, which interprets "
    "the conversion code itself (whatever way the formulas are written) on a lattice of 480 positions, 60 base / point pairs and 70 "
    "Lambert-93 points against closed forms computed by the checker and against the round-trip tolerances of the property (1e-9 degree, "
    "1 mm); the symbolic rules add the all-inputs identity when the formulas are in a shape their reader follows, and stand down otherwise.")
ASSUMPTIONS = ["floating-point accuracy (1e-9 degree / 1 mm) of the Bowring one-step inverse is numerical analysis, not decided here"]
TECHNIQUE = 'abstract interpretation of the conversion code by the checker\'s AST interpreter on a lattice of positions, bases and Lambert-93 points against closed forms and round-trip tolerances computed by the checker (C14.N, decides every clause; bounded case domain); polynomial / trigonometric identity checking of the conversion formulas against closed-form specifications on symbolic return values (F2), matrix transpose / orthonormality (F2), projection constants identified by value and compared across the pair (F5), abstract interpretation of the whole-track conversions on tagged positions (bounded case domain)'


def vr(v):
    if isinstance(v, Rat):
        a = v.single_atom()
        return a if a is not None else repr(v)
    return repr(v)


def spec(w, src, env=None):
    return w.ex(ast.parse(src, mode='eval').body, State(dict(env or {})))


def _final_attr_values(o, objname, initial=None):
    """final values of objname.<attr> after plain stores and *= updates, in program order"""
    vals = dict(initial or {})
    for e in sorted(o.state.events, key=lambda e_: e_.seq):
        if e.kind == 'store' and isinstance(e.index, str) and e.name == '%s.%s' % (objname, e.index):
            if e.aug is None:
                vals[e.index] = e.value
            elif e.aug == 'Mult' and e.index in vals and isinstance(vals[e.index], Rat) and isinstance(e.value, Rat):
                vals[e.index] = vals[e.index] * e.value
            elif e.aug == 'Div' and e.index in vals and isinstance(vals[e.index], Rat) and isinstance(e.value, Rat):
                vals[e.index] = vals[e.index] / e.value
            else:
                vals[e.index] = None
    return vals


def _single(f, w, st=None):
    outs = [o for o in w.run(body_nodocstring(f), st or State()) if o.kind == 'return']
    if len(outs) != 1:
        raise shape_error('%s is not a single-path function' % f.qual, f.loc())
    return outs[0]


def _obj_of(o):
    v = o.value
    if isinstance(v, Rat) and v.single_atom():
        return v.single_atom()
    raise shape_error('conversion does not return its result object')


def _init_fields(ctx, clsname):
    """constructor parameter -> attribute it initialises, read off `self.<attr> = <param>` in the class's __init__"""
    for q, c in ctx.prog.classes.items():
        if c.name == clsname and q.startswith(OC + '.') and '__init__' in c.methods:
            fi = c.methods['__init__']
            params = fi.params[1:]
            m = {}
            for st_ in ast.walk(fi.node):
                if isinstance(st_, ast.Assign) and len(st_.targets) == 1 and isinstance(st_.targets[0], ast.Attribute) and \
                        isinstance(st_.targets[0].value, ast.Name) and st_.targets[0].value.id == 'self' and \
                        isinstance(st_.value, ast.Name) and st_.value.id in params:
                    m[st_.value.id] = st_.targets[0].attr
            return params, m
    return None, None


def _components(ctx, o):
    """attribute -> final symbolic value of the coordinate object a conversion returns, whether it is built by a constructor call
    with the values, or allocated and then filled field by field (stores and *= updates in program order)"""
    v = o.value
    if not (isinstance(v, Rat) and v.single_atom()):
        raise shape_error('conversion does not return its result object')
    name = v.single_atom()
    ctor = None
    for e in o.state.events:
        if e.kind == 'call' and name.startswith(e.name + '(') and e.name[:1].isupper():
            txt = '%s(%s)' % (e.name, ', '.join(vr(a) for a in e.args))
            if txt == name or ctor is None:
                ctor = e
    if ctor is not None:
        params, fields = _init_fields(ctx, ctor.name)
        if params is None:
            raise shape_error('constructor %s not found' % ctor.name)
        vals = {}
        for p_, a in zip(params, ctor.args):
            if p_ in fields:
                vals[fields[p_]] = a
        for k, a in (getattr(ctor, 'kwargs', None) or {}).items():
            if k in fields:
                vals[fields[k]] = a
        vals.update(_final_attr_values(o, name, vals))
        return vals
    return _final_attr_values(o, name)


def rule_E(ctx):
    """C14.E geographic -> ECEF closed form"""
    f = ctx.prog.func(OC + '.GeoCoords.toECEFCoords')
    w = Walker(f, loop_mode='skip', global_lookup=_module_lookup(ctx, OC))
    o = _single(f, w)
    vals = _components(ctx, o)
    lat = 'self.lat*math.pi/180.0'
    lon = 'self.lon*math.pi/180.0'
    N = '(Re / math.sqrt(1 - Fe*(2-Fe) * math.sin(%s)**2))' % lat
    want = {
        'X': '(%s + self.hgt) * math.cos(%s) * math.cos(%s)' % (N, lat, lon),
        'Y': '(%s + self.hgt) * math.cos(%s) * math.sin(%s)' % (N, lat, lon),
        'Z': '((1 - Fe*(2-Fe)) * %s + self.hgt) * math.sin(%s)' % (N, lat),
    }
    for k, src in want.items():
        e = spec(w, src)
        g = vals.get(k)
        ctx.check(isinstance(g, Rat) and w.rel.is_zero(g - e), 'C14.E', f,
                  'ECEF %s equals the closed-form WGS84 expression (prime-vertical radius N = Re/sqrt(1 - e^2 sin^2(lat)), e^2 = Fe(2-Fe))' % k,
                  witness={'found': vr(g)[:300], 'expected': vr(e)[:300]}, node=f.node, key='ecef:' + k)


def _consts_used(f):
    names = {n.id for n in ast.walk(f.node) if isinstance(n, ast.Name) and isinstance(n.ctx, ast.Load)}
    return sorted(names & {'Re', 'Be', 'Fe', 'Ee'})


def rule_I(ctx):
    """C14.I / C14.K ECEF -> geographic: Bowring closed form from the same constants"""
    f = ctx.prog.func(OC + '.ECEFCoords.toGeoCoords')
    g = ctx.prog.func(OC + '.GeoCoords.toECEFCoords')
    for fn in (f, g):
        used = _consts_used(fn)
        lits = sorted({n.value for n in ast.walk(fn.node) if isinstance(n, ast.Constant) and isinstance(n.value, float)
                       and n.value not in (0.0, 1.0, 2.0, 3.0, 180.0)})
        ctx.check(set(used) <= {'Re', 'Fe'} and not lits, 'C14.K', fn,
                  'the ellipsoid enters only through the semi-major axis Re and the flattening Fe (no second, rounded copy of a constant)',
                  witness={'module constants read': used, 'numeric literals': lits,
                           'why': 'forward and inverse conversions would then use two slightly different ellipsoids: the round trip drifts by more than 1e-9 degree'},
                  node=fn.node, key='consts:' + fn.name)
    w = Walker(f, loop_mode='skip', global_lookup=_module_lookup(ctx, OC))
    o = _single(f, w)
    vals = _components(ctx, o)
    b = '(Re*(1-Fe))'
    h = '(Re*Re - %s*%s)' % (b, b)
    p = 'math.sqrt(self.X*self.X + self.Y*self.Y)'
    t = 'math.atan2(self.Z*Re, %s*%s)' % (p, b)
    latr = 'math.atan2(self.Z + %s/%s*math.sin(%s)**3, %s - %s/Re*math.cos(%s)**3)' % (h, b, t, p, h, t)
    want = {
        'lon': 'math.atan2(self.Y, self.X) * 180.0/math.pi',
        'lat': '%s * 180.0/math.pi' % latr,
        'hgt': '%s/math.cos(%s) - Re/math.sqrt(1 - Fe*(2-Fe)*math.sin(%s)**2)' % (p, latr, latr),
    }
    for k, src in want.items():
        e = spec(w, src)
        gv = vals.get(k)
        ok = isinstance(gv, Rat) and w.rel.is_zero(gv - e)
        ctx.check(ok, 'C14.I', f, 'geographic %s equals the Bowring closed-form inverse built from Re and Fe' % k,
                  witness={'found': vr(gv)[:400], 'expected': vr(e)[:400]}, node=f.node, key='geo:' + k)
    # degree/radian factors reciprocal
    one = spec(w, '(math.pi/180.0) * (180.0/math.pi)')
    ctx.check(w.rel.is_zero(one - Rat.const(1)), 'C14.I', f, 'degrees->radians and radians->degrees factors are reciprocal', witness={}, node=f.node, key='deg')


def _matrix(w, vals, rows, cols):
    """coefficient matrix of the linear forms vals[row] in the atoms cols"""
    M = []
    rest = {}
    for r in rows:
        v = vals.get(r)
        if not (isinstance(v, Rat) and v.ispoly()):
            raise shape_error('component %s is not a polynomial form' % r)
        row = []
        acc = v
        for c in cols:
            co = Rat(v.n.coeff(c, 1))
            if v.n.degree_in(c) > 1:
                raise shape_error('component %s is not linear in %s' % (r, c))
            row.append(co)
            acc = acc - co * Rat.atom(c)
        M.append(row)
        rest[r] = acc
    return M, rest


def rule_R(ctx):
    """C14.R ECEF <-> ENU rotations"""
    f1 = ctx.prog.func(OC + '.ECEFCoords.toENUCoords')
    f2 = ctx.prog.func(OC + '.ENUCoords.toECEFCoords')
    w = Walker(f1, loop_mode='skip', global_lookup=_module_lookup(ctx, OC))
    o1 = _single(f1, w)
    v1 = _components(ctx, o1)
    w2 = Walker(f2, loop_mode='skip', rel=w.rel, global_lookup=_module_lookup(ctx, OC))
    o2 = _single(f2, w2)
    v2 = _components(ctx, o2)
    B = 'base.toECEFCoords()'
    A, restA = _matrix(w, v1, ['E', 'N', 'U'], ['self.X', 'self.Y', 'self.Z'])
    Bm, restB = _matrix(w, v1, ['E', 'N', 'U'], ['%s.X' % B, '%s.Y' % B, '%s.Z' % B])
    # translation subtracted before the rotation: coefficient of base.* is minus that of self.* ; nothing else remains
    okt = all(w.rel.is_zero(A[i][j] + Bm[i][j]) for i in range(3) for j in range(3))
    noconst = True
    for i, r in enumerate(['E', 'N', 'U']):
        rem = v1[r]
        for j, c in enumerate(['self.X', 'self.Y', 'self.Z']):
            rem = rem - A[i][j] * (Rat.atom(c) - Rat.atom('%s.%s' % (B, c.split('.')[1])))
        noconst = noconst and w.rel.is_zero(rem)
    ctx.check(okt and noconst, 'C14.R', f1,
              'ECEF->ENU is a pure rotation of (point - base): the base itself maps to (0,0,0)',
              witness={'E': vr(v1.get('E'))[:200], 'N': vr(v1.get('N'))[:200], 'U': vr(v1.get('U'))[:200]}, node=f1.node, key='translation1')
    C, restC = _matrix(w, v2, ['X', 'Y', 'Z'], ['self.E', 'self.N', 'self.U'])
    okt2 = all(w.rel.is_zero(restC[r] - Rat.atom('%s.%s' % (B, r))) for r in ['X', 'Y', 'Z'])
    ctx.check(okt2, 'C14.R', f2, 'ENU->ECEF adds the base ECEF coordinates after the rotation (and nothing else)',
              witness={k: vr(v)[:120] for k, v in restC.items()}, node=f2.node, key='translation2')
    # transpose
    bad = []
    names = ['E', 'N', 'U']
    ax = ['X', 'Y', 'Z']
    for i in range(3):
        for j in range(3):
            if not w.rel.is_zero(A[i][j] - C[j][i]):
                bad.append({'entry': 'd%s/d%s' % (names[i], ax[j]), 'ECEF->ENU': vr(A[i][j]), 'ENU->ECEF (transposed)': vr(C[j][i])})
    ctx.check(not bad, 'C14.R', f2, 'the ENU->ECEF matrix is the transpose of the ECEF->ENU matrix (inverse rotations)',
              witness={'mismatching entries': bad}, node=f2.node, key='transpose')
    # orthonormal
    bad = []
    for i in range(3):
        for j in range(3):
            s = Rat.const(0)
            for k in range(3):
                s = s + A[i][k] * A[j][k]
            if not w.rel.is_zero(s - Rat.const(1 if i == j else 0)):
                bad.append({'row pair': [names[i], names[j]], 'dot product': vr(w.rel.reduce_poly(s.n).n)})
    ctx.check(not bad, 'C14.R', f1, 'the rotation matrix is orthonormal (M M^T = I modulo sin^2 + cos^2 = 1)',
              witness={'rows not orthonormal': bad}, node=f1.node, key='orthonormal')
    # axes: East = d/dlon direction, Up = ellipsoid normal
    lon = 'sin(1/180*%s.toGeoCoords().lon*pi)' % B
    upx = A[2][0]
    ctx.check('cos(1/180*%s.toGeoCoords().lat*pi)' % B in repr(upx) and 'cos(1/180*%s.toGeoCoords().lon*pi)' % B in repr(upx), 'C14.R', f1,
              'the Up axis is the ellipsoid normal at the base (cos(lat)cos(lon), cos(lat)sin(lon), sin(lat))',
              witness={'dU/dX': vr(upx)}, node=f1.node, key='up-axis')


# the defining constants of the Lambert-93 projection (IGN, RGF93): first eccentricity, pole, cone exponent, projection constant,
# longitude of origin 3 deg E.  Used only to tell WHICH constant of the code plays which role (closeness 1e-6); the identities are
# checked with the code's own values.
_L93 = {'E': 0.0818191910428, 'Xp': 700000.0, 'Yp': 12655612.0499, 'n': 0.7256077650532670, 'C': 11754255.4261, 'lambda0': 0.05235987755982988}


def _module_lookup(ctx, modname):
    m = ctx.prog.module(modname)

    def num(nd):
        if isinstance(nd, ast.Constant) and isinstance(nd.value, (int, float)) and not isinstance(nd.value, bool):
            return Rat.const(nd.value)
        if isinstance(nd, ast.UnaryOp) and isinstance(nd.op, ast.USub):
            v = num(nd.operand)
            return -v if v is not None else None
        return None

    busy = set()

    def look(name):
        nd = m.consts.get(name)
        if nd is None or name in ('Re', 'Fe', 'Be', 'Ee'):
            return None
        v = num(nd)
        if v is not None:
            return v
        if isinstance(nd, (ast.BinOp, ast.UnaryOp, ast.Call, ast.Attribute)) and name not in busy:
            # a constant given by an expression (RAD2DEG = 180.0 / math.pi): its symbolic value
            busy.add(name)
            try:
                return Walker(None, loop_mode='skip', global_lookup=look).ex(nd, State())
            except Exception:
                return None
            finally:
                busy.discard(name)
        if isinstance(nd, (ast.Tuple, ast.List)):
            vs = [num(e) for e in nd.elts]
            if all(x is not None for x in vs):
                return tuple(vs)
        if isinstance(nd, ast.Dict) and all(isinstance(k, ast.Constant) for k in nd.keys):
            vs = {k.value: num(v_) for k, v_ in zip(nd.keys, nd.values)}
            if all(x is not None for x in vs.values()):
                return vs
        return None
    return look


def _roles(w, f, body):
    """role -> (local name, value) for the Lambert constants of f, identified by value among the numeric constants its locals hold"""
    pre = None
    for o in w.run(body, State()):
        pre = o.state
        break
    if pre is None:
        raise shape_error('%s has no path' % f.qual, f.loc())
    found = {}
    cands = {}
    for e in pre.events:
        if e.kind == 'assign' and isinstance(e.value, Rat) and e.value.isconst() and e.name not in cands:
            cands[e.name] = float(e.value.constval())
    # module-level constants the function reads directly
    if w.global_lookup is not None:
        for nd in ast.walk(f.node):
            if isinstance(nd, ast.Name) and isinstance(nd.ctx, ast.Load) and nd.id not in cands:
                g = w.global_lookup(nd.id)
                if isinstance(g, Rat) and g.isconst():
                    cands[nd.id] = float(g.constval())
                elif isinstance(g, (tuple, list)):
                    for k_, x in enumerate(g):
                        if isinstance(x, Rat) and x.isconst():
                            cands['%s[%d]' % (nd.id, k_)] = float(x.constval())
                elif isinstance(g, dict):
                    for k_, x in g.items():
                        if isinstance(x, Rat) and x.isconst():
                            cands['%s[%r]' % (nd.id, k_)] = float(x.constval())
    for role, std in _L93.items():
        near = [(nm, v) for nm, v in cands.items() if abs(v - std) <= 1e-6 * max(1.0, abs(std))]
        if near:
            found[role] = near[0]
    return found


def rule_L(ctx):
    """C14.L Lambert-93"""
    fi = fo = None
    for q, f in ctx.prog.functions.items():
        if q.startswith(OC + '.') and f.name.endswith('projFromLambert93'):
            fi = f
        if q.startswith(OC + '.') and f.name.endswith('projToLambert93'):
            fo = f
    if fi is None or fo is None:
        raise anchor_error('Lambert-93 functions not found', OC)
    look = _module_lookup(ctx, OC)
    w = Walker(fo, loop_mode='skip', global_lookup=look)
    wi = Walker(fi, loop_mode='skip', global_lookup=look)
    ro = _roles(w, fo, body_nodocstring(fo))
    ri = _roles(wi, fi, body_nodocstring(fi))
    if set(ro) != set(_L93) or not set(ri) >= {'E', 'Xp', 'Yp', 'n', 'C', 'lambda0'}:
        raise shape_error('Lambert-93 constants not identified (forward %s, inverse %s)' % (sorted(ro), sorted(ri)), fo.loc())
    co = {k: v for k, (nm, v) in ro.items()}
    ci = {k: v for k, (nm, v) in ri.items()}
    diff = {k: {'forward': co[k], 'inverse': ci[k]} for k in co if co[k] != ci[k]}
    ctx.check(not diff, 'C14.K', fi, 'forward and inverse Lambert-93 use the same constants', witness={'constants that differ': diff}, node=fi.node, key='lambert-consts')
    sym = {k: Rat.const(v) for k, v in co.items()}
    symi = {k: Rat.const(v) for k, v in ci.items()}
    outs = [o for o in w.run(body_nodocstring(fo), State()) if o.kind == 'return']
    if len(outs) != 1:
        raise shape_error('_projToLambert93 not single path', fo.loc())
    enu = [e for e in outs[0].state.events if e.kind == 'call' and e.name == 'ENUCoords']
    lon = 'coords.getX()*math.pi/180.0'
    phi = 'coords.getY()*math.pi/180.0'
    L = 'math.log(math.tan(math.pi/4 + %s/2) * ((1 - E*math.sin(%s))/(1 + E*math.sin(%s)))**(E/2))' % (phi, phi, phi)
    eX = spec(w, 'Xp + C*math.exp(-n*%s)*math.sin(n*(%s - lambda0))' % (L, lon), sym)
    eY = spec(w, 'Yp - C*math.exp(-n*%s)*math.cos(n*(%s - lambda0))' % (L, lon), sym)
    ok = len(enu) == 1 and isinstance(enu[0].args[0], Rat) and w.rel.is_zero(enu[0].args[0] - eX) and w.rel.is_zero(enu[0].args[1] - eY)
    ctx.check(len(enu) == 1 and len(enu[0].args) >= 3 and vr(enu[0].args[2]) == 'coords.getZ()', 'C14.L', fo,
              'forward Lambert-93 carries the height through unchanged', witness={'third coordinate': vr(enu[0].args[2]) if enu and len(enu[0].args) > 2 else None},
              node=fo.node, key='forward-z')
    ctx.check(ok, 'C14.L', fo, 'forward Lambert-93: X = Xp + C exp(-n L) sin(n(lon-lon0)), Y = Yp - C exp(-n L) cos(n(lon-lon0)), L the isometric latitude',
              witness={'X': vr(enu[0].args[0])[:300] if enu else None, 'expected X': vr(eX)[:300],
                       'Y': vr(enu[0].args[1])[:300] if enu and len(enu[0].args) > 1 else None, 'expected Y': vr(eY)[:300]}, node=fo.node, key='forward')
    # inverse: lon, isometric latitude and the fixed-point iteration
    ibody = body_nodocstring(fi)
    loops = [s for s in ibody if isinstance(s, ast.For)]
    if len(loops) != 1:
        raise shape_error('__projFromLambert93: iteration loop not found', fi.loc())
    X, Y = 'coords.getX()', 'coords.getY()'
    elon = spec(wi, 'math.atan(-(%s - Xp)/(%s - Yp))/n + lambda0' % (X, Y), symi)
    eL = spec(wi, '-math.log(math.sqrt((%s - Xp)**2 + (%s - Yp)**2)/C)/n' % (X, Y), symi)
    # what is returned: GeoCoords(lon in degrees, lat in degrees, height carried through)
    full = [o for o in wi.run(ibody, State()) if o.kind == 'return']
    if len(full) != 1:
        raise shape_error('__projFromLambert93 is not single-path', fi.loc())
    gc = [e for e in full[0].state.events if e.kind == 'call' and e.name == 'GeoCoords']
    okz = len(gc) == 1 and len(gc[0].args) >= 3 and vr(gc[0].args[2]) == 'coords.getZ()'
    ctx.check(okz, 'C14.L', fi, 'inverse Lambert-93 carries the height through unchanged (the forward projection does)',
              witness={'arguments': [vr(a)[:60] for a in gc[0].args] if gc else None,
                       'why': 'a dropped third argument silently returns height 0: a point with altitude does not round-trip'}, node=fi.node, key='inverse-z')
    if gc and len(gc[0].args) >= 2:
        deg = spec(wi, '180/math.pi', symi)
        a0 = gc[0].args[0]
        oklon = isinstance(a0, Rat) and wi.rel.is_zero(a0 - elon * deg)
        ctx.check(oklon, 'C14.L', fi, 'the longitude returned is atan(-(X-Xp)/(Y-Yp))/n + lon0 in degrees (undoes X-Xp = R sin, Y-Yp = -R cos)',
                  witness={'found': vr(a0)[:300], 'expected': vr(elon * deg)[:300]}, node=fi.node, key='inv-lon')
    # the latitude iteration: phi <- 2 atan( ((1+E sin phi)/(1-E sin phi))^(E/2) * exp(L) ) - pi/2 with L = -log(R/C)/n; the state
    # before the loop supplies every local the body reads (hoisted sub-expressions included), phi is made symbolic
    pre = [o for o in wi.run(ibody[:ibody.index(loops[0])], State()) if o.kind == 'fall']
    if len(pre) != 1:
        raise shape_error('__projFromLambert93 prologue is not straight-line', fi.loc())
    st = pre[0].state.fork()
    assigned = names_stored(loops[0].body)
    it = [nm for nm in assigned if isinstance(st.env.get(nm), Rat)]
    if len(it) != 1:
        # the iterated variable is the one both read and written by the body
        reads = {x.id for x in ast.walk(loops[0]) if isinstance(x, ast.Name) and isinstance(x.ctx, ast.Load)}
        it = [nm for nm in assigned if nm in reads and nm in st.env]
    if len(it) != 1:
        raise shape_error('Lambert iteration: iterated variable not identified (%s)' % sorted(assigned), fi.loc(loops[0]))
    st.env[it[0]] = Rat.atom('phi@')
    bo = [o for o in wi.run(loops[0].body, st) if o.kind == 'fall']
    if len(bo) != 1:
        raise shape_error('Lambert iteration body not straight-line', fi.loc(loops[0]))
    ephi = spec(wi, '2*math.atan(((1 + E*math.sin(p0))/(1 - E*math.sin(p0)))**(E/2) * math.exp(LL)) - math.pi/2', dict(symi, p0=Rat.atom('phi@'), LL=eL))
    got = bo[0].state.env.get(it[0])
    ctx.check(isinstance(got, Rat) and wi.rel.is_zero(got - ephi), 'C14.L', fi,
              'the latitude iteration inverts the forward isometric latitude: phi <- 2 atan(((1+E sin phi)/(1-E sin phi))^(E/2) exp(L)) - pi/2, '
              'L = -log(R/C)/n with R the distance to the pole (Xp, Yp)',
              witness={'found': vr(got)[:400], 'expected': vr(ephi)[:400]}, node=loops[0], key='inv-iter')
    if gc and len(gc[0].args) >= 2:
        a1 = gc[0].args[1]
        final = full[0].state.env.get(it[0])
        oklat = isinstance(a1, Rat) and isinstance(final, Rat) and wi.rel.is_zero(a1 - final * spec(wi, '180/math.pi', symi))
        ctx.check(oklat, 'C14.L', fi, 'the latitude returned is the iterated latitude in degrees', witness={'found': vr(a1)[:200]}, node=fi.node, key='inv-lat-deg')


def rule_T(ctx):
    """C14.B whole-track conversions, by interpretation of the repository's Track class on tracks of tagged positions:
    every observation converted once, with the right base(s); the base used is the base recorded (a copy, not the caller's object);
    conversions back default to the recorded base"""
    from .. import absint, orders
    fn = absint.funcs(ctx, 'tracklib.core.track')
    fn['deepcopy'] = absint.deep_copy

    class Exit(Exception):
        pass

    def _exit(*a):
        raise orders.Raised('SystemExit', 'exit()')
    fn['exit'] = _exit
    T = absint.classref(ctx, TRACK, fn)

    def mk(kind):
        class C(orders.PyStub):
            isa = (kind,)
            repo_methods = {k: v for k, v in absint.methods_of(ctx, OC + '.' + kind).items() if k in ('copy',) or (kind == 'GeoCoords' and k == 'toGeoCoords')
                            or (kind == 'ECEFCoords' and k == 'toECEFCoords') }
            repo_funcs = fn

            def __init__(self, a, b, c=0.0, tag=None):
                f3 = {'GeoCoords': ('lon', 'lat', 'hgt'), 'ENUCoords': ('E', 'N', 'U'), 'ECEFCoords': ('X', 'Y', 'Z')}[kind]
                for k_, v_ in zip(f3, (a, b, c)):
                    setattr(self, k_, v_)
                self.tag = tag
                self.src = None
                self.how = None

            def vals(self):
                return tuple(v for k_, v in sorted(vars(self).items()) if k_ not in ('tag', 'src', 'how'))

            def _conv(self, to, *bases):
                r = CLS[to](0.0, 0.0, 0.0)
                r.src, r.how = self, (to,) + tuple(bases)
                return r

            def getX(self):
                return self.vals()[0]

            def getY(self):
                return self.vals()[1]

            def getZ(self):
                return self.vals()[2]

            def __repr__(self):
                return '%s<%s>' % (kind, self.tag if self.tag is not None else ('from ' + repr(self.src) if self.src is not None else self.vals()))
        C.__name__ = kind
        C.__qualname__ = kind
        return C
    CLS = {}
    for k in ('GeoCoords', 'ENUCoords', 'ECEFCoords'):
        CLS[k] = mk(k)
        fn[k] = CLS[k]
        fn['__globals__'][k] = CLS[k]
    G, E, X = CLS['GeoCoords'], CLS['ENUCoords'], CLS['ECEFCoords']
    # conversions of tagged positions (the formulas themselves are decided by C14.E/I/R); a Geo/ECEF base is accepted in either form
    G.toECEFCoords = lambda self: self._conv('ECEFCoords')
    G.toENUCoords = lambda self, base: self._conv('ENUCoords', base)
    X.toGeoCoords = lambda self: self._conv('GeoCoords')
    X.toENUCoords = lambda self, base: self._conv('ENUCoords', base)
    E.toECEFCoords = lambda self, base: self._conv('ECEFCoords', base)
    E.toGeoCoords = lambda self, base: self._conv('GeoCoords', base)
    E.toENUCoords = lambda self, base1, base2: self._conv('ENUCoords', base1, base2)

    class O(orders.PyStub):
        isa = ('Obs',)

        def __init__(self, k, pos):
            self.k = k
            self.position = pos
            self.timestamp = None
            self.features = []

        def copy(self):
            return O(self.k, self.position)

    ft = ctx.prog.func(TRACK + '.toENUCoords')
    n = 3
    found = {}
    ncases = [0]

    def same_base(b, ref):
        return b is ref or (type(b) is type(ref) and isinstance(b, orders.PyStub) and hasattr(b, 'vals') and b.vals() == ref.vals())

    def run_case(label, kind, method, args, pre_base, expect):
        """expect(track, old positions, result) -> (key, description, witness) for the first thing wrong, or None"""
        ncases[0] += 1
        olds = [CLS[kind](10.0 + k, 20.0 + k, 30.0 + k, tag='p%d' % k) for k in range(n)]
        t = T([O(k, p_) for k, p_ in enumerate(olds)], 'u', 't')
        t.fields['base'] = pre_base
        f = ctx.prog.func(TRACK + '.' + method)
        try:
            res = t.call(method, *args)
        except orders.Unsupported as ex:
            raise shape_error('Track.%s not interpretable: %s' % (method, ex), f.loc())
        except orders.PROGRAM_ERRORS as ex:
            found.setdefault((method, 'fails'), (f, 'Track.%s converts the track' % method, {'case': label, 'exception': '%s: %s' % (type(ex).__name__, str(ex)[:160])}))
            return
        pts = t.fields['_Track__POINTS']
        bad = expect(t, olds, [o.position for o in pts])
        if bad is not None:
            key, desc, wit = bad
            found.setdefault((method, key), (f, desc, dict(wit, case=label)))

    def converted(to, bases_of):
        def chk(t, olds, news):
            for k, (o_, nw) in enumerate(zip(olds, news)):
                if nw is o_ or getattr(nw, 'src', None) is None:
                    return ('all-obs', 'every observation of the track is converted', {'observation left as it was': k, 'of': len(olds)})
                if nw.src is not o_ or nw.how[0] != to:
                    return ('all-obs', 'every observation is converted once, from its own former position', {'observation': k, 'position now': repr(nw), 'conversion': repr(nw.how)})
                want = bases_of(t)
                got = nw.how[1:]
                if len(got) != len(want) or not all(same_base(g_, w_) for g_, w_ in zip(got, want)):
                    return ('base-used', 'each position is converted with the base(s) the conversion is documented to use',
                            {'observation': k, 'bases passed': [repr(g_) for g_ in got], 'expected': [repr(w_) for w_ in want]})
            return None
        return chk

    def recorded(ref_of, also=None):
        def chk(t, olds, news):
            ref = ref_of(olds)
            b = t.fields.get('base')
            if isinstance(ref, int):
                return None if b == ref else ('records', 'the SRID used is recorded as the base', {'recorded': repr(b), 'used': ref})
            if not (isinstance(b, G) and ((isinstance(ref, G) and b.vals() == ref.vals()) or getattr(b, 'src', None) is ref or (getattr(b, 'src', None) is not None and same_base(b.src, ref)))):
                return ('records', 'a conversion to local coordinates records, in geographic form, the base it used',
                        {'base used': repr(ref), 'base recorded': repr(b)})
            if b is ref:
                return ('geo-base-alias', 'the base is recorded as a copy: the caller\'s own object is not kept',
                        {'recorded': repr(b), 'why': 'a later in-place change of the caller\'s object would silently move the recorded base: the round trip through the track breaks'})
            return None
        return chk

    def both(*chks):
        def chk(t, olds, news):
            for c in chks:
                r = c(t, olds, news)
                if r is not None:
                    return r
            return None
        return chk
    Bg = lambda: G(2.0, 48.0, 100.0, tag='B')
    Bx = lambda: X(4.2e6, 1.7e5, 4.7e6, tag='Bx')
    for kind in ('GeoCoords', 'ECEFCoords'):
        for mkb, lbl in ((Bg, 'geographic base'), (Bx, 'geocentric base')):
            b = mkb()
            run_case('%s track, toENUCoords(%s)' % (kind[:-6], lbl), kind, 'toENUCoords', [b], None,
                     both(converted('ENUCoords', lambda t, b=b: [b]), recorded(lambda olds, b=b: b)))
        run_case('%s track, toENUCoords() without a base' % kind[:-6], kind, 'toENUCoords', [], None,
                 both(converted('ENUCoords', lambda t: [t_first[0]]) if False else (lambda t, olds, news: converted('ENUCoords', lambda t_: [olds[0]])(t, olds, news)),
                      recorded(lambda olds: olds[0])))
    old_b = Bg()
    new_b = G(3.0, 45.0, 10.0, tag='B2')
    run_case('ENU track based at B, toENUCoords(B2)', 'ENUCoords', 'toENUCoords', [new_b], old_b,
             both(converted('ENUCoords', lambda t: [old_b, new_b]), recorded(lambda olds: new_b)))
    # a new base that differs from the recorded one in a single component (re-basing must still happen)
    for comp, vals_ in (('longitude', (2.5, 48.0, 100.0)), ('latitude', (2.0, 48.5, 100.0)), ('height', (2.0, 48.0, 135.0))):
        ob, nb = Bg(), G(*vals_, tag='B+d' + comp)
        run_case('ENU track based at B, toENUCoords(base differing from B in %s only)' % comp, 'ENUCoords', 'toENUCoords', [nb], ob,
                 both(converted('ENUCoords', lambda t, ob=ob, nb=nb: [ob, nb]), recorded(lambda olds, nb=nb: nb)))
    new_x = Bx()
    old_b2 = Bg()
    run_case('ENU track based at B, toENUCoords(geocentric B2)', 'ENUCoords', 'toENUCoords', [new_x], old_b2,
             both(converted('ENUCoords', lambda t: [old_b2, new_x]), recorded(lambda olds: new_x)))
    # conversions back: explicit base / recorded base
    for method, to in (('toGeoCoords', 'GeoCoords'), ('toECEFCoords', 'ECEFCoords')):
        rb = Bg()
        run_case('ENU track with recorded base, %s()' % method, 'ENUCoords', method, [], rb, converted(to, lambda t, rb=rb: [rb]))
        eb = G(5.0, 44.0, 0.0, tag='B3')
        rb2 = Bg()
        run_case('ENU track, %s(explicit base)' % method, 'ENUCoords', method, [eb], rb2, converted(to, lambda t, eb=eb: [eb]))
    run_case('Geo track, toECEFCoords()', 'GeoCoords', 'toECEFCoords', [], None, converted('ECEFCoords', lambda t: []))
    run_case('ECEF track, toGeoCoords()', 'ECEFCoords', 'toGeoCoords', [], None, converted('GeoCoords', lambda t: []))
    for (method, key), (f, desc, wit) in sorted(found.items()):
        ctx.violation('C14.B', f, desc, wit, node=f.node, key=key)
    for method in ('toENUCoords', 'toGeoCoords', 'toECEFCoords'):
        if not any(m_ == method for m_, _ in found):
            ctx.ok('C14.B', ctx.prog.func(TRACK + '.' + method), 'Track.%s: every observation converted once from its own position with the documented base(s); '
                   'base recorded = base used (as a copy); defaults to the recorded base' % method, node=ctx.prog.func(TRACK + '.' + method).node)
    ctx.extra['C14.T cases'] = ncases[0]


_NUM_CACHE = {}


class _Capture:
    """buffers the obligations of a symbolic rule so that its verdict can be weighed against the shape-independent one"""

    def __init__(self, ctx):
        self._ctx = ctx
        self.buf = []

    def __getattr__(self, k):
        return getattr(self._ctx, k)

    def ok(self, rule, func, desc, node=None, detail=None):
        self.buf.append(('ok', (rule, func, desc), {'node': node, 'detail': detail}))

    def violation(self, rule, func, desc, witness, node=None, key=None):
        self.buf.append(('violation', (rule, func, desc, witness), {'node': node, 'key': key}))

    def check(self, cond, rule, func, desc, witness=None, node=None, key=None):
        if cond:
            return self.ok(rule, func, desc, node)
        return self.violation(rule, func, desc, witness if witness is not None else desc, node, key)

    def recognise(self, cond, rule, func, desc, node=None, witness=None, key=None):
        if cond:
            return self.ok(rule, func, desc, node)
        from ..loader import AnalysisError
        raise AnalysisError('shape', '%s: construct not recognised: %s' % (getattr(func, 'qual', func), desc))


def _symbolic(rule_id, clauses, sym):
    """A symbolic rule proves a clause for ALL inputs when the formulas are written in a shape its reader follows.  When it cannot
    establish the closed form (helpers, generators, computed attribute names: the reader yields terms it does not understand) it does
    not claim a violation on that ground alone: the clause is decided by C14.N, which interprets the code whatever its shape.  A
    symbolic mismatch is reported only together with a concrete counter-example of C14.N."""
    def rule(ctx):
        from ..loader import AnalysisError
        res = _numeric(ctx)
        cap = _Capture(ctx)
        err = None
        try:
            sym(cap)
        except AnalysisError as e:
            if e.kind not in ('shape', 'anchor'):
                raise
            err = e
        bad = [b for b in cap.buf if b[0] == 'violation']
        numeric_ok = all(res[c][1] is None for c in clauses)
        for kind, a, kw in cap.buf:
            if kind == 'ok':
                ctx.ok(*a, **kw)
            elif not numeric_ok:
                ctx.violation(*a, **kw)
        if (bad or err is not None) and numeric_ok:
            f0 = res[clauses[0]][0]
            why = err.msg if err is not None else '; '.join(sorted({b[1][2] for b in bad}))[:300]
            ctx.note(rule_id, 'the symbolic reading did not establish the closed form (%s); the clause is decided by C14.N' % why)
            ctx.ok(rule_id, f0, 'symbolic reading not available for the present shape of the code: clause decided by interpretation (C14.N) on %d cases'
                   % sum(res[c][2] for c in clauses), node=f0.node)
        elif err is not None:
            raise err
    rule.__doc__ = sym.__doc__
    return rule



def _numeric(ctx):
    """every clause of the property decided by interpreting the repository's conversion code (tlint.orders; nothing is imported or
    run by CPython) on a lattice of positions and bases, against closed forms computed here: clause -> (function, counter-example or
    None, number of cases).  The lattice covers the eight octants, the equator, the Greenwich and the anti-meridian, |lat| up to 89.9,
    heights from -1000 m to 10000 m; bases at the same kinds of places; Lambert-93 inside its domain."""
    import math
    from .. import absint, orders
    from ..loader import shape_error
    cache = _NUM_CACHE.setdefault(id(ctx), {})
    if cache:
        return cache
    fn = absint.funcs(ctx, OC, {})

    def _exit(*a):
        raise orders.Raised('SystemExit', 'exit()')
    fn['exit'] = _exit
    G = absint.classref(ctx, OC + '.GeoCoords', fn)
    X = absint.classref(ctx, OC + '.ECEFCoords', fn)
    E = absint.classref(ctx, OC + '.ENUCoords', fn)
    A, F = 6378137.0, 1.0 / 298.257223563
    E2 = F * (2.0 - F)
    RAD = math.pi / 180.0

    def ecef(lon, lat, h):
        n_ = A / math.sqrt(1.0 - E2 * math.sin(lat * RAD) ** 2)
        return ((n_ + h) * math.cos(lat * RAD) * math.cos(lon * RAD), (n_ + h) * math.cos(lat * RAD) * math.sin(lon * RAD), ((1.0 - E2) * n_ + h) * math.sin(lat * RAD))

    def enu(p, b):
        (x, y, z), (bx, by, bz) = ecef(*p), ecef(*b)
        dx, dy, dz = x - bx, y - by, z - bz
        sl, cl, sp, cp = math.sin(b[0] * RAD), math.cos(b[0] * RAD), math.sin(b[1] * RAD), math.cos(b[1] * RAD)
        return (-dx * sl + dy * cl, -dx * cl * sp - dy * sl * sp + dz * cp, dx * cl * cp + dy * sl * cp + dz * sp)

    def fields(o, names):
        if not isinstance(o, orders.Obj) or not all(k in o.fields and isinstance(o.fields[k], (int, float)) and not isinstance(o.fields[k], bool) for k in names):
            return None
        return tuple(float(o.fields[k]) for k in names)

    def dlon(a, b):
        d = abs(a - b) % 360.0
        return min(d, 360.0 - d)

    def run(f, thunk):
        try:
            return True, thunk()
        except orders.Unsupported as ex:
            raise shape_error('%s not interpretable: %s' % (f.qual, ex), f.loc())
        except orders.PROGRAM_ERRORS as ex:
            return False, '%s: %s' % (type(ex).__name__, str(ex)[:160])
    LONS = (-180.0, -179.9999, -120.5, -90.0, -1e-9, 0.0, 2.3522, 45.0, 90.0, 135.25, 179.9999, 180.0)
    LATS = (-89.9, -67.25, -45.0, -1e-7, 0.0, 1e-7, 23.5, 48.8566, 80.0, 89.9)
    HS = (-1000.0, 0.0, 35.5, 10000.0)
    PTS = [(lo, la, h) for lo in LONS for la in LATS for h in HS]
    f_e = ctx.prog.func(OC + '.GeoCoords.toECEFCoords')
    f_i = ctx.prog.func(OC + '.ECEFCoords.toGeoCoords')
    f_r = ctx.prog.func(OC + '.ECEFCoords.toENUCoords')
    f_b = ctx.prog.func(OC + '.ENUCoords.toECEFCoords')
    out = {}
    # E: geographic -> ECEF is the closed form; I: and back (1e-9 degree, 1 mm)
    bad_e = bad_i = None
    n_e = n_i = 0
    for p in PTS:
        n_e += 1
        ok, r = run(f_e, lambda: G(*p).call('toECEFCoords'))
        got = fields(r, ('X', 'Y', 'Z')) if ok else None
        want = ecef(*p)
        if got is None or any(abs(g - w) > 1e-6 + 1e-13 * abs(w) for g, w in zip(got, want)):
            bad_e = bad_e or {'geographic (lon, lat, h)': list(p), 'returned (X, Y, Z)': list(got) if got else (r if not ok else repr(r)), 'closed form': list(want)}
            continue
        n_i += 1
        ok, r2 = run(f_i, lambda: X(*got).call('toGeoCoords'))
        back = fields(r2, ('lon', 'lat', 'hgt')) if ok else None
        if back is None or dlon(back[0], p[0]) > 1e-9 or abs(back[1] - p[1]) > 1e-9 or abs(back[2] - p[2]) > 1e-3:
            bad_i = bad_i or {'geographic (lon, lat, h)': list(p), 'ECEF': list(got), 'converted back (lon, lat, h)': list(back) if back else (r2 if not ok else repr(r2)),
                              'tolerance': '1e-9 degree, 1 mm'}
    # ... and a position object that is converted, moved with its setters (one coordinate at a time) and converted again: the second
    # conversion is that of the place it now is at
    for p, q in (((2.3522, 48.8566, 35.5), (2.3522, 48.8566, 1200.0)), ((2.3522, 48.8566, 35.5), (-120.5, 48.8566, 35.5)), ((45.0, -45.0, 0.0), (45.0, 23.5, 0.0)),
                 ((135.25, 80.0, 10000.0), (-90.0, -67.25, -1000.0))):
        if not all(m_ in ctx.prog.cls(OC + '.GeoCoords').methods or ctx.prog.method(OC + '.GeoCoords', m_) is not None for m_ in ('setX', 'setY', 'setZ')):
            break
        n_e += 1

        def moved():
            g_ = G(*p)
            g_.call('toECEFCoords')
            for m_, old_, new_ in zip(('setX', 'setY', 'setZ'), p, q):
                if old_ != new_:
                    g_.call(m_, new_)
            return g_.call('toECEFCoords')
        ok, r = run(f_e, moved)
        got = fields(r, ('X', 'Y', 'Z')) if ok else None
        want = ecef(*q)
        if got is None or any(abs(g - w) > 1e-6 + 1e-13 * abs(w) for g, w in zip(got, want)):
            bad_e = bad_e or {'history': 'a GeoCoords is converted, moved with setX / setY / setZ, converted again', 'first at (lon, lat, h)': list(p), 'moved to': list(q),
                              'second conversion returned (X, Y, Z)': list(got) if got else (r if not ok else repr(r)), 'closed form at the new place': list(want)}
    out['E'] = (f_e, bad_e, n_e)
    out['I'] = (f_i, bad_i, n_i)
    # R: local frames - the base maps to (0, 0, 0); points map to the rotation of the ECEF difference; and back; base given as GeoCoords or ECEFCoords
    BASES = [(2.3522, 48.8566, 35.0), (-179.9999, -45.0, 0.0), (0.0, 0.0, 0.0), (135.25, 89.9, 10000.0), (-90.0, -89.9, -1000.0), (180.0, 23.5, 150.0)]
    OFFS = [(0.0, 0.0, 0.0), (0.001, 0.0005, 12.0), (-0.3, 0.2, -40.0), (0.9, -0.45, 800.0), (0.0, 0.0, 2500.0)]
    bad_r = bad_b = None
    n_r = n_b = 0
    for b in BASES:
        for (dlo, dla, dh) in OFFS:
            lat = max(-89.9, min(89.9, b[1] + dla))
            lon = b[0] + dlo / max(0.02, math.cos(lat * RAD)) if abs(b[1]) < 89 else b[0] + dlo * 20
            lon = (lon + 180.0) % 360.0 - 180.0
            p = (lon, lat, b[2] + dh)
            for base_kind in ('GeoCoords', 'ECEFCoords'):
                n_r += 1
                mkbase = (lambda: G(*b)) if base_kind == 'GeoCoords' else (lambda: X(*ecef(*b)))
                ok, r = run(f_r, lambda: G(*p).call('toENUCoords', mkbase()))
                got = fields(r, ('E', 'N', 'U')) if ok else None
                want = enu(p, b)
                tol = 1e-4 + 1e-9 * max(abs(w) for w in want)
                if (dlo, dla, dh) == (0.0, 0.0, 0.0):
                    want, tol = (0.0, 0.0, 0.0), 1e-8
                if got is None or any(abs(g - w) > tol for g, w in zip(got, want)):
                    bad_r = bad_r or {'base (lon, lat, h)': list(b), 'base given as': base_kind, 'point (lon, lat, h)': list(p),
                                      'returned (E, N, U)': list(got) if got else (r if not ok else repr(r)), 'expected': list(want)}
                    continue
                n_b += 1
                ok, r2 = run(f_b, lambda: E(*got).call('toGeoCoords', mkbase()))
                back = fields(r2, ('lon', 'lat', 'hgt')) if ok else None
                if back is None or dlon(back[0], p[0]) * max(0.0, math.cos(p[1] * RAD)) > 1e-9 or abs(back[1] - p[1]) > 1e-9 or abs(back[2] - p[2]) > 1e-3:
                    bad_b = bad_b or {'base (lon, lat, h)': list(b), 'base given as': base_kind, 'point (lon, lat, h)': list(p), 'local (E, N, U)': list(got),
                                      'converted back (lon, lat, h)': list(back) if back else (r2 if not ok else repr(r2)), 'tolerance': '1e-9 degree (of arc), 1 mm'}
    # ENU relative to one base -> ENU relative to another
    f_rr = ctx.prog.func(OC + '.ENUCoords.toENUCoords')
    # (the second base may stand on the vertical of the first: same longitude and latitude, another height)
    for b1, b2 in ((BASES[0], (2.36, 48.86, 40.0)), (BASES[2], (0.01, -0.01, 5.0)), (BASES[0], (BASES[0][0], BASES[0][1], 155.0)), (BASES[0], (BASES[0][0], BASES[0][1], 0.0)),
                   (BASES[1], (BASES[1][0], BASES[1][1], 9000.0))):
        for (dlo, dla, dh) in OFFS[1:4]:
            p = (b1[0] + dlo * 0.1, b1[1] + dla * 0.1, b1[2] + dh)
            n_r += 1
            e1 = enu(p, b1)
            ok, r = run(f_rr, lambda: E(*e1).call('toENUCoords', G(*b1), G(*b2)))
            got = fields(r, ('E', 'N', 'U')) if ok else None
            want = enu(p, b2)
            if got is None or any(abs(g - w) > 1e-4 + 1e-9 * abs(w) for g, w in zip(got, want)):
                bad_r = bad_r or {'first base': list(b1), 'second base': list(b2), 'local coordinates in the first frame': list(e1),
                                  'returned (E, N, U)': list(got) if got else (r if not ok else repr(r)), 'expected in the second frame': list(want)}
    # one base object (given as ECEFCoords, then as GeoCoords) used for several back-conversions in a row: each answer is that of a fresh
    # base, and the caller's base object is left where it was
    for base_kind in ('ECEFCoords', 'GeoCoords'):
        b = BASES[0]
        n_b += 1
        locs = [(120.0, -45.5, 8.0), (-3000.0, 900.0, 40.0), (0.0, 0.0, 0.0)]

        def reuse():
            bobj = X(*ecef(*b)) if base_kind == 'ECEFCoords' else G(*b)
            before = dict(bobj.fields)
            outs = [E(*l_).call('toECEFCoords', bobj) for l_ in locs]
            fresh = [E(*l_).call('toECEFCoords', X(*ecef(*b)) if base_kind == 'ECEFCoords' else G(*b)) for l_ in locs]
            return before, dict(bobj.fields), [fields(o_, ('X', 'Y', 'Z')) for o_ in outs], [fields(o_, ('X', 'Y', 'Z')) for o_ in fresh]
        ok, r = run(f_b, reuse)
        if not ok:
            bad_b = bad_b or {'history': 'one %s base object used for three local -> ECEF conversions' % base_kind, 'failure': r}
        else:
            before, after, outs, fresh = r
            same_ = all(o_ is not None and f_ is not None and all(abs(x_ - y_) <= 1e-6 for x_, y_ in zip(o_, f_)) for o_, f_ in zip(outs, fresh))
            if not same_ or any(before.get(k_) != after.get(k_) for k_ in before if isinstance(before.get(k_), (int, float))):
                bad_b = bad_b or {'history': 'one %s base object used for three local -> ECEF conversions in a row' % base_kind, 'local points': [list(l_) for l_ in locs],
                                  'returned': [list(o_) if o_ else None for o_ in outs], 'with a fresh base each time': [list(f_) if f_ else None for f_ in fresh],
                                  'base before': {k_: v_ for k_, v_ in before.items() if isinstance(v_, (int, float))}, 'base after': {k_: v_ for k_, v_ in after.items() if isinstance(v_, (int, float))}}
    out['R'] = (f_r, bad_r, n_r)
    out['B'] = (f_b, bad_b, n_b)
    # L: Lambert-93 (IGN constants), forward closed form and back
    f_l = ctx.prog.func(OC + '._projToLambert93')
    LE, LN, LC, LXS, LYS, L0 = 0.08181919106, 0.7256077650532670, 11754255.426096, 700000.0, 12655612.049876, 3.0 * RAD

    def lambert(lon, lat):
        phi = lat * RAD
        liso = math.atanh(math.sin(phi)) - LE * math.atanh(LE * math.sin(phi))
        r_ = LC * math.exp(-LN * liso)
        return LXS + r_ * math.sin(LN * (lon * RAD - L0)), LYS - r_ * math.cos(LN * (lon * RAD - L0))
    bad_l = None
    n_l = 0
    for lon in (-5.0, -1.5, 0.0, 2.3522, 3.0, 7.5, 9.5):
        for lat in (41.0, 43.5, 46.5, 48.8566, 51.0):
            for z in (0.0, 150.5):
                n_l += 1
                ok, r = run(f_l, lambda: G(lon, lat, z).call('toENUCoords', 2154))
                got = fields(r, ('E', 'N', 'U')) if ok else None
                want = lambert(lon, lat) + (z,)
                if got is None or any(abs(g - w) > 2e-3 for g, w in zip(got, want)):
                    bad_l = bad_l or {'geographic (lon, lat, h)': [lon, lat, z], 'returned (X, Y, Z)': list(got) if got else (r if not ok else repr(r)),
                                      'Lambert-93 closed form (IGN constants)': list(want)}
                    continue
                ok, r2 = run(f_l, lambda: E(*got).call('toGeoCoords', 2154))
                back = fields(r2, ('lon', 'lat', 'hgt')) if ok else None
                if back is None or abs(back[0] - lon) > 1e-9 or abs(back[1] - lat) > 1e-9 or abs(back[2] - z) > 1e-3:
                    bad_l = bad_l or {'geographic (lon, lat, h)': [lon, lat, z], 'projected': list(got), 'converted back': list(back) if back else (r2 if not ok else repr(r2)),
                                      'tolerance': '1e-9 degree, 1 mm'}
    out['L'] = (f_l, bad_l, n_l)
    cache.update(out)
    return cache


def rule_N(ctx):
    """C14.N the conversions interpreted on a lattice of positions and bases against closed forms computed by the checker (shape-independent:
    whatever way the formulas are written)"""
    res = _numeric(ctx)
    texts = {
        'E': 'geographic -> ECEF equals the closed-form WGS84 expression (1e-6 m)',
        'I': 'ECEF -> geographic returns the position geographic -> ECEF started from (1e-9 degree, 1 mm)',
        'R': 'geographic -> local ENU is the rotation of the ECEF difference by the longitude and latitude of the base (base given as GeoCoords or ECEFCoords); the base itself maps to (0, 0, 0); ENU -> ENU between two bases likewise',
        'B': 'local ENU -> geographic returns the position the local coordinates came from (1e-9 degree, 1 mm)',
        'L': 'Lambert-93 forward equals the IGN closed form (2 mm) and the inverse returns the geographic position (1e-9 degree)',
    }
    for k, (f, bad, n) in sorted(res.items()):
        ctx.check(bad is None, 'C14.N', f, '%s on %d interpreted cases' % (texts[k], n), witness=bad, node=f.node, key='numeric:' + k)
    ctx.extra['C14.N cases'] = sum(n for _, _, n in res.values())



RULES = [
    ('C14.N', rule_N, 'quick'),
    ('C14.E', _symbolic('C14.E', ('E',), rule_E), 'quick'),
    ('C14.I', _symbolic('C14.I', ('I', 'E'), rule_I), 'quick'),
    ('C14.R', _symbolic('C14.R', ('R', 'B'), rule_R), 'quick'),
    ('C14.L', _symbolic('C14.L', ('L',), rule_L), 'quick'),
    ('C14.T', rule_T, 'quick'),
]
MIN_OBLIGATIONS = 12
