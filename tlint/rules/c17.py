"""C17 - curvilinear abscissa and speed (analytics.py, cinematics.py, Integrator)."""
import ast
import re

from ..alg import Rat
from ..loader import shape_error, anchor_error
from ..report import weighed
from ..sx import Walker, State
from ..effects import Effects
from ..util import body_nodocstring, names_stored, unparse

ANA = 'tracklib.algo.analytics'
CIN = 'tracklib.algo.cinematics'
OPS = 'tracklib.core.operators'

EXPLANATION = (
    "Static analysis of ds / Integrator.execute / computeAbsCurv / speed / estimate_speed: ds is 0 at index 0 and "
    "the planimetric distance between fixes i and i-1 elsewhere; the integrator is Y[0]=0, Y[i]=Y[i-1]+X[i] over "
    "i in [1,size) (a lower bound of 0 would read index -1, which wraps); computeAbsCurv binds ds to its feature, "
    "integrates it into abs_curv and removes the temporary; every return path of speed is either NaN under "
    "`elapsed == 0` or planimetric distance / elapsed time of the SAME pair of fixes: (1,0) at the first fix, "
    "(N-1,N-2) at the last, (i+1,i-1) inside; the write-effect summaries of computeAbsCurv and estimate_speed "
    "contain no position, timestamp or observation-list write.")
ASSUMPTIONS = ["distance2DTo is the planimetric distance (obs_coords), timestamps subtract to elapsed seconds (C03)"]
TECHNIQUE = "abstract interpretation of computeAbsCurv / estimate_speed / Integrator over the repository's Track, ENUCoords and ObsTime classes by the checker's AST interpreter on thirteen configuration classes of tracks (repeated positions and timestamps, sub-millisecond legs, 1 ms sampling, heights, backward timestamps, midnight; five classes again with numpy-scalar coordinates and seconds), against planimetric distances and elapsed times computed by the checker (bounded case domain); wiring rule (F5); write-effect summaries (F1)"


def vr(v):
    if isinstance(v, Rat):
        a = v.single_atom()
        return a if a is not None else repr(v)
    return repr(v)


def rule_D(ctx):
    """C17.D ds"""
    f = ctx.prog.func(ANA + '.ds')
    tr, i = f.params[:2]
    w = Walker(f, loop_mode='skip')
    outs = [o for o in w.run(body_nodocstring(f), State()) if o.kind == 'return']
    zero = [o for o in outs if any(c.kind == 'cmp' and c.op == '==' and {vr(c.a), vr(c.b)} == {i, '0'} for c, _ in o.state.conds)]
    rest = [o for o in outs if o not in zero]
    ctx.check(len(zero) == 1 and isinstance(zero[0].value, Rat) and zero[0].value.isconst() and zero[0].value.constval() == 0,
              'C17.D', f, 'ds is 0 at the first fix', witness={'returned': [vr(o.value) for o in zero]}, node=f.node, key='zero')
    im1 = repr(Rat.atom(i) - Rat.const(1))
    forms = {'%s.getObs(%s).distance2DTo(%s.getObs(%s))' % (tr, i, tr, im1),
             '%s.getObs(%s).distance2DTo(%s.getObs(%s))' % (tr, im1, tr, i),
             '%s.getObs(%s).position.distance2DTo(%s.getObs(%s).position)' % (tr, i, tr, im1),
             '%s.getObs(%s).position.distance2DTo(%s.getObs(%s).position)' % (tr, im1, tr, i)}
    ctx.check(len(rest) == 1 and vr(rest[0].value) in forms, 'C17.D', f,
              'elsewhere ds is the planimetric (2D) distance between fix i and fix i-1',
              witness={'returned': [vr(o.value) for o in rest]}, node=f.node, key='dist')


def rule_I(ctx):
    """C17.I running sum"""
    f = ctx.prog.func(OPS + '.Integrator.execute')
    tr, afin, afout = f.params[1:4]
    body = body_nodocstring(f)
    loops = [s for s in body if isinstance(s, ast.For)]
    if len(loops) != 1:
        raise shape_error('Integrator.execute: loop not found', f.loc())
    lo = loops[0]
    w = Walker(f, loop_mode='skip')
    pre = [o for o in w.run(body[:body.index(lo)], State()) if o.kind == 'fall'][0].state
    r = w.range_info(lo.iter, pre)
    iv = lo.target.id
    st = State({iv: Rat.atom(iv)})
    outs = [o for o in w.run(lo.body, st) if o.kind in ('fall', 'continue')]
    skipping = [o for o in outs if not any(e.kind == 'store' for e in o.state.events)]
    if skipping and len(skipping) < len(outs):
        for o in skipping[:1]:
            ctx.violation('C17.I', f, 'every index i >= 1 receives Y[i] = Y[i-1] + X[i]',
                          {'path that stores nothing': [repr(c) for c, _ in o.state.conds],
                           'why': 'the slot keeps its initial 0: the running sum falls back to 0 at that fix and restarts (the abscissa decreases, the last value is not the length)'},
                          node=o.node if o.node is not None else lo, key='skip-store')
        outs = [o for o in outs if o not in skipping]
    if len(outs) != 1:
        raise shape_error('Integrator loop body not straight-line', f.loc(lo))
    sts = [e for e in outs[0].state.events if e.kind == 'store']
    if len(sts) != 1:
        raise shape_error('Integrator loop: expected one store', f.loc(lo))
    e = sts[0]
    arr = e.name
    exp = Rat.atom('%s[%s]' % (arr, repr(Rat.atom(iv) - Rat.const(1)))) + Rat.atom('%s.getObsAnalyticalFeature(%s, %s)' % (tr, afin, iv))
    ctx.check(vr(e.index) == iv and isinstance(e.value, Rat) and w.rel.is_zero(e.value - exp), 'C17.I', f,
              'Y[i] = Y[i-1] + X[i]', witness={'stored': vr(e.value), 'expected': vr(exp)}, node=e.node, key='recurrence')
    size = Rat.atom('%s.size()' % tr)
    okhi = r is not None and w.rel.is_zero(r[1] - size) and vr(r[2]) == '1'
    lo_c = r[0].constval() if r is not None and isinstance(r[0], Rat) and r[0].isconst() else None
    ctx.check(okhi and lo_c == 1, 'C17.I', f,
              'the sum runs over i = 1 .. size-1: index 0 keeps its initial 0 and the read Y[i-1] never reaches index -1',
              witness={'range': [vr(x) for x in r] if r else None,
                       'why': 'with i = 0 the read Y[-1] does not fail: it wraps to the last element, so Y[0] becomes X[0] '
                              '(the abscissa no longer starts at 0)' if lo_c == 0 else 'some observations are not summed'},
              node=lo, key='range')
    init = pre.env.get(arr)
    ctx.check(vr(init) in ('([0] Mult %s)' % vr(size), '[0] Mult %s' % vr(size)) or (isinstance(init, Rat) and '[0]' in vr(init) and vr(size) in vr(init)),
              'C17.I', f, 'the running sum starts from zeros (Y[0] = 0), one slot per observation', witness={'initial': vr(init)}, node=lo, key='init')
    w2 = Walker(f, loop_mode='skip')
    o2 = [o for o in w2.run(body, State()) if o.kind == 'return']
    calls = [c for o in o2 for c in o.state.events if c.kind == 'call' and c.name == 'addListToAF']
    ctx.check(len(calls) == 1 and [vr(a) for a in calls[0].args[:2]] == [tr, afout] and unparse(calls[0].node.args[2]) == unparse(e.node.targets[0].value), 'C17.I', f,
              'the sums are written to the output feature', witness={'call': unparse(calls[0].node) if calls else None}, node=f.node, key='write')


def rule_W(ctx):
    """C17.W computeAbsCurv wiring"""
    f = ctx.prog.func(CIN + '.computeAbsCurv')
    tr = f.params[0]
    m = ctx.prog.module(ANA)
    names = {}
    for k in ('BIAF_DS', 'BIAF_ABS_CURV', 'BIAF_SPEED'):
        v = m.consts.get(k)
        if not isinstance(v, ast.Constant):
            raise anchor_error('%s not found' % k, ANA)
        names[k] = v.value
    w = Walker(f, loop_mode='skip')
    outs = [o for o in w.run(body_nodocstring(f), State()) if o.kind == 'return']
    if not outs:
        raise shape_error('computeAbsCurv has no return', f.loc())
    n = 0
    for o in outs:
        evs = [e for e in o.state.events if e.kind == 'call']
        add = [e for e in evs if e.name == 'addAnalyticalFeature']
        op = [e for e in evs if e.name == 'operate']
        rm = [e for e in evs if e.name == 'removeAnalyticalFeature']
        conds = [repr(c) for c, _ in o.state.conds]
        fresh = any(c.startswith('not ') and 'BIAF_ABS_CURV' in c for c in conds)
        if add:
            ctx.check(vr(add[0].args[0]) == 'ds' and vr(add[0].args[1]) == 'BIAF_DS', 'C17.W', f,
                      'the ds algorithm is bound to the ds feature', witness={'call': unparse(add[0].node)}, node=add[0].node, key='bind')
        if fresh:
            n += 1
            ok = len(op) == 1 and [vr(a) for a in op[0].args[:3]] == ['Operator.INTEGRATOR', 'BIAF_DS', 'BIAF_ABS_CURV']
            ctx.check(ok, 'C17.W', f, 'abs_curv is the integral of ds', witness={'call': unparse(op[0].node) if op else None}, node=f.node, key='integrate')
        ctx.check(len(rm) == 1 and vr(rm[0].args[0]) == 'BIAF_DS' and all(e.seq < rm[0].seq for e in add + op), 'C17.W', f,
                  'the temporary ds feature is removed after use', witness={}, node=f.node, key='cleanup:' + ';'.join(conds))
        ctx.check(vr(o.value) == '%s.getAnalyticalFeature(BIAF_ABS_CURV)' % tr, 'C17.W', f, 'the abscissa feature is returned',
                  witness={'returned': vr(o.value)}, node=o.node, key='ret:' + ';'.join(conds))
    if n == 0:
        raise shape_error('computeAbsCurv: no path computes the abscissa', f.loc())
    g = ctx.prog.func(CIN + '.estimate_speed')
    calls = [c for c in ast.walk(g.node) if isinstance(c, ast.Call) and getattr(c.func, 'attr', None) == 'addAnalyticalFeature']
    ok = len(calls) == 1 and unparse(calls[0].args[0]) == 'speed' and \
        (len(calls[0].args) == 1 or unparse(calls[0].args[1]) in ('BIAF_SPEED', "'speed'"))
    ctx.check(ok and names['BIAF_SPEED'] == 'speed', 'C17.W', g, 'estimate_speed binds the speed algorithm to the speed feature',
              witness={'call': unparse(calls[0]) if calls else None}, node=g.node, key='speed-bind')


def rule_S(ctx):
    """C17.S speed on every return path"""
    f = ctx.prog.func(ANA + '.speed')
    tr, i = f.params[:2]
    w = Walker(f, loop_mode='skip')
    outs = [o for o in w.run(body_nodocstring(f), State()) if o.kind == 'return']
    if len(outs) < 6:
        raise shape_error('speed(): expected three arms with two outcomes each', f.loc())
    size = Rat.atom('%s.size()' % tr)
    arms_seen = set()
    for o in outs:
        conds = [cj for c, _ in o.state.conds for cj in c.conjuncts()]
        pathtxt = [repr(c) for c, _ in o.state.conds]
        def has(op, a, b):
            return any(cj.kind == 'cmp' and cj.op == op and isinstance(cj.a, Rat) and isinstance(cj.b, Rat) and
                       (w.rel.is_zero((cj.a - cj.b) - (a - b)) or w.rel.is_zero((cj.a - cj.b) + (a - b))) for cj in conds)
        i_ = Rat.atom(i)
        only_size = bool(conds) and all(cj.kind == 'cmp' and isinstance(cj.a, Rat) and isinstance(cj.b, Rat) and
                                        set((cj.a - cj.b).atoms()) == {'%s.size()' % tr} for cj in conds)
        if only_size:
            import operator as _op
            ops = {'<': _op.lt, '<=': _op.le, '==': _op.eq, '!=': _op.ne}
            hit = [n_ for n_ in (2, 3, 4, 10) if all(ops[cj.op]((cj.a - cj.b).subst('%s.size()' % tr, Rat.const(n_)).constval(), 0) for cj in conds)]
            ctx.check(not hit, 'C17.S', f, 'an early answer for degenerate tracks concerns only tracks of fewer than 2 fixes',
                      witness={'guard': pathtxt, 'returned': vr(o.value), 'track sizes caught': hit,
                               'why': 'a track of 2 fixes has a well-defined one-sided speed at both ends: d(0,1)/(t1-t0)'}, node=o.node, key='degenerate')
            continue
        if has('==', i_, Rat.const(0)):
            arm, hi, lo = 'first', Rat.const(1), Rat.const(0)
        elif has('==', i_, size - Rat.const(1)):
            arm, hi, lo = 'last', size - Rat.const(1), size - Rat.const(2)
        elif has('!=', i_, Rat.const(0)) and has('!=', i_, size - Rat.const(1)):
            arm, hi, lo = 'interior', i_ + Rat.const(1), i_ - Rat.const(1)
        else:
            raise shape_error('speed(): arm of a return path not understood: %s' % pathtxt, f.loc(o.node))
        arms_seen.add(arm)
        ob = lambda k: '%s.getObs(%s)' % (tr, repr(k))
        dts = {Rat.atom(ob(hi) + '.timestamp') - Rat.atom(ob(lo) + '.timestamp')}
        dss = {'%s.position.distance2DTo(%s.position)' % (ob(hi), ob(lo)), '%s.position.distance2DTo(%s.position)' % (ob(lo), ob(hi)),
               '%s.distance2DTo(%s)' % (ob(hi), ob(lo)), '%s.distance2DTo(%s)' % (ob(lo), ob(hi))}
        dt = next(iter(dts))
        v = o.value
        is_nan = vr(v) in ('NAN', 'nan', "float('nan')", 'math.nan', 'np.nan')
        zero_guard = has('==', dt, Rat.const(0))
        nonzero_guard = has('!=', dt, Rat.const(0))
        def _expected(cj):
            if not (cj.kind == 'cmp' and isinstance(cj.a, Rat) and isinstance(cj.b, Rat)):
                return False
            d_ = cj.a - cj.b
            if set(d_.atoms()) == {'%s.size()' % tr}:
                return True                      # complement of a degenerate-size guard (checked on its own path)
            return cj.op in ('==', '!=') and (w.rel.is_zero(d_ - dt) or w.rel.is_zero(d_ + dt) or i in d_.atoms())
        other_tests = [repr(cj) for cj in conds if not _expected(cj)]
        if is_nan:
            ctx.check(zero_guard and not other_tests, 'C17.S', f,
                      '%s fix: NaN is returned exactly when the elapsed time between fixes %s and %s is zero' % (arm, vr(hi), vr(lo)),
                      witness={'path conditions': pathtxt, 'elapsed time expected in the test': vr(dt)}, node=o.node, key='nan:' + arm)
        else:
            okq = False
            if isinstance(v, Rat) and not v.d.isconst():
                num, den = Rat(v.n), Rat(v.d)
                okq = (w.rel.is_zero(den - dt) and vr(num) in dss) or (w.rel.is_zero(den + dt) and vr(Rat.const(0) - num) in dss)
            ctx.check(okq and nonzero_guard and not other_tests, 'C17.S', f,
                      '%s fix: speed = planimetric distance(%s, %s) / (t[%s] - t[%s]), returned exactly when that elapsed time is not zero'
                      % (arm, vr(hi), vr(lo), vr(hi), vr(lo)),
                      witness={'returned': vr(v)[:200], 'path conditions': pathtxt, 'unexpected tests': other_tests}, node=o.node, key='quot:' + arm)
    ctx.check(arms_seen == {'first', 'last', 'interior'}, 'C17.S', f, 'first fix, last fix and interior fixes each have their own arm',
              witness={'arms': sorted(arms_seen)}, node=f.node, key='arms')


def rule_F(ctx):
    """C17.F positions and timestamps unchanged"""
    eff = Effects(ctx.prog)
    for q in (CIN + '.computeAbsCurv', CIN + '.estimate_speed', ANA + '.speed', ANA + '.ds'):
        fi = ctx.prog.func(q)
        e = eff.effects_of(q)
        bad = sorted(e & {'POS', 'TIME', 'OBSLIST'})
        wit = {loc: eff.why(q, loc) for loc in bad}
        ctx.check(not bad, 'C17.F', fi, '%s writes no position, timestamp or observation list (effects: %s)' % (fi.name, sorted(e)),
                  witness={'write chains': wit}, node=fi.node, key='frame:' + fi.name)


def rule_G(ctx):
    """C17.G abs_curv and speed on configuration classes, by interpretation of computeAbsCurv / estimate_speed (and of the
    repository's Track, ENUCoords, ObsTime, Integrator classes beneath them)"""
    import math
    import itertools
    from .. import absint, orders
    fa = ctx.prog.func(CIN + '.computeAbsCurv')
    fs = ctx.prog.func(CIN + '.estimate_speed')
    from .. import npstub
    fn = absint.funcs(ctx, CIN, dict(npstub.stubs()))
    fn['deepcopy'] = absint.deep_copy
    NANV = float('nan')
    fn['__globals__']['NAN'] = float('nan')      # another object than the NaN values of the data
    T = absint.classref(ctx, 'tracklib.core.track.Track', fn)
    absint.operator_table(ctx, fn)
    EN = absint.classref(ctx, 'tracklib.core.obs_coords.ENUCoords', fn)
    OT = absint.classref(ctx, 'tracklib.core.obs_time.ObsTime', fn)
    fn['atan2'], fn['hypot'] = math.atan2, math.hypot

    def O(k, pos, ts):
        # the repository's own Obs (its distance methods and its copy are the code's), tagged with its rank
        return absint.real_obs(ctx, fn, pos, ts, k=k)

    def stamp(sec_of_day, ms=0, day=15, year=2021, wrap=int):
        s = int(sec_of_day)
        return OT(year, 3, day, s // 3600, (s // 60) % 60, wrap(s % 60), ms)
    # coordinates and the seconds field held as numpy scalars (values taken from numpy arrays or data-frame columns): elapsed times and
    # distances are then numpy scalars too, for which a division by zero is inf/nan instead of an exception
    KINDS = {'Python numbers': (float, int), 'numpy scalars': (npstub.NpF64, lambda v: npstub.NpInt(v, 'int64'))}
    base_t = 12 * 3600
    # (name, positions (E, N, U), times as (seconds of the day, ms, day))
    shapes = {
        'generic line, 1 s sampling': ([(0, 0, 0), (3, 4, 0), (3, 10, 0), (11, 10, 0), (11, 4, 0)], [(base_t + k, 0, 15) for k in range(5)]),
        'exactly repeated position after some movement (a pause)': ([(0, 0, 0), (3, 4, 0), (3, 4, 0), (6, 8, 0), (6, 8, 0), (9, 12, 0)], [(base_t + 2 * k, 0, 15) for k in range(6)]),
        'purely vertical move (same E, N; other height)': ([(0, 0, 0), (6, 8, 0), (6, 8, 25), (12, 16, 25)], [(base_t + k, 0, 15) for k in range(4)]),
        'heights differ on every leg (slant distance differs from planimetric)': ([(0, 0, 0), (3, 4, 12), (6, 8, 0), (9, 12, 40)], [(base_t + k, 0, 15) for k in range(4)]),
        'legs shorter than 0.1 mm on every axis (receiver jitter)': ([(0, 0, 0), (0.00003, 0.00004, 0), (0.00006, 0.00008, 0), (0.00009, 0.00012, 0)], [(base_t + k, 0, 15) for k in range(4)]),
        'sub-second sampling (millisecond stamps)': ([(0, 0, 0), (3, 4, 0), (6, 8, 0), (9, 12, 0)], [(base_t, 0, 15), (base_t, 250, 15), (base_t, 500, 15), (base_t + 1, 125, 15)]),
        'two fixes with the same timestamp': ([(0, 0, 0), (3, 4, 0), (6, 8, 0), (9, 12, 0)], [(base_t, 0, 15), (base_t + 1, 0, 15), (base_t + 1, 0, 15), (base_t + 2, 0, 15)]),
        'neighbours of a fix share a timestamp': ([(0, 0, 0), (3, 4, 0), (6, 8, 0), (9, 12, 0)], [(base_t, 0, 15), (base_t + 1, 0, 15), (base_t, 0, 15), (base_t + 3, 0, 15)]),
        'timestamps going backwards (a fix logged late)': ([(0, 0, 0), (3, 4, 0), (6, 8, 0), (9, 12, 0)], [(base_t, 0, 15), (base_t + 5, 0, 15), (base_t + 2, 0, 15), (base_t + 9, 0, 15)]),
        '1 ms sampling': ([(0, 0, 0), (3, 4, 0), (6, 8, 0), (9, 12, 0)], [(base_t, 0, 15), (base_t, 1, 15), (base_t, 2, 15), (base_t, 3, 15)]),
        'neighbours of a fix share position and timestamp': ([(0, 0, 0), (3, 4, 0), (5, 5, 0), (3, 4, 0), (9, 12, 0)],
                                                              [(base_t, 0, 15), (base_t + 1, 0, 15), (base_t + 2, 0, 15), (base_t + 1, 0, 15), (base_t + 4, 0, 15)]),
        'across midnight': ([(0, 0, 0), (3, 4, 0), (6, 8, 0)], [(86399, 0, 15), (0, 500, 16), (2, 0, 16)]),
        'two fixes': ([(0, 0, 0), (3, 4, 7)], [(base_t, 0, 15), (base_t + 2, 0, 15)]),
        'resumed on the same day and month one and three years later (same clock times)': ([(0, 0, 0), (3, 4, 0), (6, 8, 0), (9, 12, 0), (12, 16, 0)],
                                                                                             [(base_t, 0, 15), (base_t + 1, 0, 15), (base_t + 1, 0, 15, 2022), (base_t + 2, 0, 15, 2022), (base_t, 0, 15, 2024)]),
    }
    found = {}
    n_cases = 0

    def close(a, b):
        if isinstance(a, float) and a != a:
            return isinstance(b, float) and b != b
        if not isinstance(a, (int, float)) or isinstance(a, bool) or not isinstance(b, (int, float)):
            return False
        return abs(a - b) <= 1e-9 * max(1.0, abs(a), abs(b))

    np_shapes = ('generic line, 1 s sampling', 'two fixes with the same timestamp', 'neighbours of a fix share a timestamp', 'neighbours of a fix share position and timestamp', 'two fixes')
    for (sname, (pts, times)), (kname, (wc, ws)) in itertools.product(shapes.items(), KINDS.items()):
        if kname != 'Python numbers' and sname not in np_shapes:
            continue
        if kname != 'Python numbers':
            sname = sname + ' [coordinates and seconds held as numpy scalars]'

        def build():
            return T([O(k, EN(wc(float(p_[0])), wc(float(p_[1])), wc(float(p_[2]))), stamp(*tm, wrap=ws)) for k, (p_, tm) in enumerate(zip(pts, times))], 'u', 't')       # tm = (second of the day, ms, day[, year])
        n = len(pts)
        legs = [0.0] + [math.hypot(pts[k][0] - pts[k - 1][0], pts[k][1] - pts[k - 1][1]) for k in range(1, n)]
        want_s = [sum(legs[:k + 1]) for k in range(n)]
        import datetime as _dt
        secs = [tm[2] * 86400 + tm[0] + tm[1] / 1000.0 + (_dt.date(tm[3], 1, 1) - _dt.date(2021, 1, 1)).days * 86400.0 if len(tm) > 3 else tm[2] * 86400 + tm[0] + tm[1] / 1000.0 for tm in times]

        def pair(i):
            return (1, 0) if i == 0 else ((n - 1, n - 2) if i == n - 1 else (i + 1, i - 1))
        want_v = []
        tol_v = []
        for i in range(n):
            a, b = pair(i)
            dt = secs[a] - secs[b]
            d = math.hypot(pts[a][0] - pts[b][0], pts[a][1] - pts[b][1])
            want_v.append(NANV if abs(dt) < 1e-9 else d / dt)
            # timestamps are subtracted as float epoch seconds (~1.6e9, spacing 2.4e-7 s): the elapsed time carries that rounding
            tol_v.append(0.0 if abs(dt) < 1e-9 else abs(d / dt) * 6e-7 / abs(dt))
        tol_s = [0.0] * n
        snapshot = [(k, tuple(float(c) for c in p_), tuple(tm[:3]) + (tm[3] if len(tm) > 3 else 2021,)) for k, (p_, tm) in enumerate(zip(pts, times))]

        def state_of(t):
            out = []
            for o in t.fields['_Track__POINTS']:
                p_, ts = o.fields['position'], o.fields['timestamp']
                out.append((o.fields.get('k'), (p_.fields['E'], p_.fields['N'], p_.fields['U']),
                            (ts.fields['hour'] * 3600 + ts.fields['min'] * 60 + ts.fields['sec'], ts.fields['ms'], ts.fields['day'], ts.fields['year'])))
            return out
        entries = [('abs_curv', fa, 'computeAbsCurv', want_s, 'abs_curv', tol_s, False), ('speed', fs, 'estimate_speed', want_v, 'speed', tol_v, False)]
        if 'estimate_speed' in ctx.prog.cls('tracklib.core.track.Track').methods:
            entries.append(('speed', fs, 'estimate_speed', want_v, 'speed', tol_v, True))            # the method of the track (the users' front door)
        for what, f, call, want, feat, tol, via_track in entries:
            t = build()
            n_cases += 1
            case = {'track': sname, 'positions (E, N, U)': [list(p_) for p_ in pts], 'times (s)': [round(s_ - secs[0], 3) for s_ in secs]}
            if via_track:
                case['called as'] = 'track.%s()' % call
            run_ = (lambda t_: t_.call(call)) if via_track else (lambda t_: fn['__name__'](call)(t_))
            try:
                res = run_(t)
                got = t.call('getAnalyticalFeature', feat)
                run_(t)                     # repeated computation on the same track
                again = t.call('getAnalyticalFeature', feat)
                if isinstance(got, list) and isinstance(again, list) and len(got) == len(again) and not all(close(a_, b_) for a_, b_ in zip(got, again)):
                    found.setdefault((what, 'repeat'), (f, 'computing %s a second time on the same track gives the same values' % what,
                                                        dict(case, first=got, second=again)))
            except orders.Unsupported as ex:
                raise shape_error('%s not interpretable: %s' % (call, ex), f.loc())
            except orders.PROGRAM_ERRORS as ex:
                found.setdefault((what, 'fails'), (f, '%s does not fail' % call, dict(case, exception='%s: %s' % (type(ex).__name__, str(ex)[:160]))))
                continue
            if state_of(t) != snapshot:
                found.setdefault((what, 'frame'), (f, '%s leaves every position and timestamp, and the order of the observations, as they were' % call,
                                                   dict(case, **{'observations after (index, position, time of day/ms/day)': state_of(t)[:6]})))
                continue
            def near(g_, w_, tl):
                return close(g_, w_) or (isinstance(g_, (int, float)) and not isinstance(g_, bool) and g_ == g_ and w_ == w_ and abs(g_ - w_) <= tl)
            if not isinstance(got, list) or len(got) != n or not all(near(g_, w_, tl) for g_, w_, tl in zip(got, want, tol)):
                k_bad = next((k for k, (g_, w_, tl) in enumerate(zip(got, want, tol)) if not near(g_, w_, tl)), None) if isinstance(got, list) else None
                desc = ('abs_curv starts at 0, grows by the planimetric distance between consecutive fixes and ends at the planimetric length'
                        if what == 'abs_curv' else
                        'speed is planimetric distance over elapsed time: one-sided at both ends, centred elsewhere, NaN exactly when the elapsed time is 0')
                found.setdefault((what, 'value'), (f, desc, dict(case, **{'feature': got if not isinstance(got, list) else [g_ if isinstance(g_, (int, float)) else repr(g_) for g_ in got],
                                                                         'expected': want, 'first index that differs': k_bad})))
            # a smoothed speed asked with a window wider than the track is refused (a warning, no value): the plain speed asked afterwards is the plain speed
            if via_track and what == 'speed' and kname == 'Python numbers':
                n_cases += 1
                try:
                    t5 = build()
                    t5.call(call, 10 * n + 1)
                    t5.call(call)
                    got5 = t5.call('getAnalyticalFeature', feat)
                except orders.Unsupported as ex:
                    raise shape_error('%s after a refused smoothing not interpretable: %s' % (call, ex), f.loc())
                except orders.PROGRAM_ERRORS as ex:
                    found.setdefault((what, 'fails'), (f, '%s does not fail' % call, dict(case, history='track.%s(%d) refused, then track.%s()' % (call, 10 * n + 1, call), exception='%s: %s' % (type(ex).__name__, str(ex)[:160]))))
                    got5 = None
                if got5 is not None and not (isinstance(got5, list) and len(got5) == n and all(near(g_, w_, tl) for g_, w_, tl in zip(got5, want, tol))):
                    found.setdefault((what, 'after-refusal'), (f, 'the plain speed asked after a smoothed speed was refused (window wider than the track) is the plain speed',
                                                               dict(case, history='track.%s(%d): refused; then track.%s()' % (call, 10 * n + 1, call), feature=got5, expected=want)))
            # the feature is deleted, the last fix is moved and the feature computed again: it is that of the geometry as it is now
            # (nothing kept from the first computation - a temporary, a cache - may survive the deletion)
            if kname == 'Python numbers' and n >= 2:
                n_cases += 1
                try:
                    t3 = build()
                    run_(t3)
                    t3.call('removeAnalyticalFeature', feat)
                    lastp = t3.fields['_Track__POINTS'][n - 1].fields['position']
                    lastp.fields['E'] = lastp.fields['E'] + 30.0
                    lastp.fields['N'] = lastp.fields['N'] - 40.0
                    run_(t3)
                    got3 = t3.call('getAnalyticalFeature', feat)
                    moved = [O(k, EN(float(p_[0]) + (30.0 if k == n - 1 else 0.0), float(p_[1]) - (40.0 if k == n - 1 else 0.0), float(p_[2])), stamp(*tm)) for k, (p_, tm) in enumerate(zip(pts, times))]
                    fresh3 = T(moved, 'u', 't')
                    run_(fresh3)
                    want3 = fresh3.call('getAnalyticalFeature', feat)
                    names3 = sorted(t3.call('getListAnalyticalFeatures'))
                    names_fresh = sorted(fresh3.call('getListAnalyticalFeatures'))
                except orders.Unsupported as ex:
                    raise shape_error('%s after deleting the feature not interpretable: %s' % (call, ex), f.loc())
                except orders.PROGRAM_ERRORS as ex:
                    found.setdefault((what, 'fails'), (f, '%s does not fail' % call, dict(case, history='computed, feature deleted, last fix moved, computed again', exception='%s: %s' % (type(ex).__name__, str(ex)[:160]))))
                    continue
                if not (isinstance(got3, list) and isinstance(want3, list) and len(got3) == len(want3) and all(close(a_, b_) for a_, b_ in zip(got3, want3))) or names3 != names_fresh:
                    found.setdefault((what, 'recomputed'), (f, '%s computed again after the feature was deleted and a fix moved is that of the present geometry' % what,
                                                            dict(case, history='computed; removeAnalyticalFeature(%r); last fix moved by (+30, -40); computed again' % feat,
                                                                 feature=got3, expected=want3, **{'features listed': names3, 'features listed on a track built that way': names_fresh})))
            # a piece cut out of a track (extractSpanTime: fixes 1 ... n-1) gets the feature computed, then the track itself: the piece reads what a track
            # built from those fixes reads, and the track it was cut from reads its own values
            if kname == 'Python numbers' and n >= 3 and 'extractSpanTime' in ctx.prog.cls('tracklib.core.track.Track').methods:
                n_cases += 1
                try:
                    t2 = build()
                    P_ = t2.fields['_Track__POINTS']
                    piece = t2.call('extractSpanTime', P_[1].fields['timestamp'], P_[n - 1].fields['timestamp'])
                    run_(piece)
                    run_(t2)
                    got_piece = piece.call('getAnalyticalFeature', feat)
                    fresh = T([O(k, EN(float(p_[0]), float(p_[1]), float(p_[2])), stamp(*tm)) for k, (p_, tm) in enumerate(zip(pts, times)) if secs[1] <= secs[k] <= secs[n - 1]], 'u', 't')
                    run_(fresh)
                    want_piece = fresh.call('getAnalyticalFeature', feat)
                    after = t2.call('getAnalyticalFeature', feat)
                except orders.Unsupported as ex:
                    raise shape_error('%s on an extracted piece not interpretable: %s' % (call, ex), f.loc())
                except orders.PROGRAM_ERRORS as ex:
                    found.setdefault((what, 'fails'), (f, '%s does not fail' % call, dict(case, history='a piece is cut out with extractSpanTime; computed on the piece, then on the track', exception='%s: %s' % (type(ex).__name__, str(ex)[:160]))))
                    continue
                same_piece = isinstance(got_piece, list) and isinstance(want_piece, list) and len(got_piece) == len(want_piece) and all(close(a_, b_) for a_, b_ in zip(got_piece, want_piece))
                same_orig = isinstance(after, list) and len(after) == len(again) and all(close(a_, b_) for a_, b_ in zip(after, again))
                if not same_piece or not same_orig:
                    found.setdefault((what, 'piece'), (f, '%s computed on a piece cut out of a track (extractSpanTime) reads as on a track built from those fixes, and the track it was cut from keeps its own values' % what,
                                                       dict(case, **{'piece': 'fixes 1 ... %d' % (n - 1), 'feature of the piece': got_piece, 'expected for the piece': want_piece,
                                                                     'feature of the track the piece was cut from': after, 'expected for that track': again})))
    # the running sum itself, on a feature whose first value is not 0 (ds is): Y[0] = 0, Y[i] = Y[i-1] + X[i]
    fi_ = ctx.prog.method(OPS + '.Integrator', 'execute') or ctx.prog.func(OPS + '.Integrator.execute')     # (its own or an inherited one)
    for xs in ([5.0, 1.0, 2.0, 4.0], [3.0], [2.0, 0.0, 0.0, 7.0, 0.0], [1.5, -1.5, 2.0]):
        t = T([O(k, EN(float(k), 0.0, 0.0), stamp(base_t + k)) for k in range(len(xs))], 'u', 't')
        n_cases += 1
        try:
            t.call('createAnalyticalFeature', 'a', list(xs))
            t.call('operate', fn['Operator'].INTEGRATOR, 'a', 'b')
            got = t.call('getAnalyticalFeature', 'b')
            src = t.call('getAnalyticalFeature', 'a')
        except orders.Unsupported as ex:
            raise shape_error('Integrator not interpretable: %s' % ex, fi_.loc())
        except orders.PROGRAM_ERRORS as ex:
            found.setdefault(('integrator', 'fails'), (fi_, 'the running-sum operator does not fail', {'input': xs, 'exception': '%s: %s' % (type(ex).__name__, str(ex)[:160])}))
            continue
        want = [0.0]
        for x_ in xs[1:]:
            want.append(want[-1] + x_)
        if not isinstance(got, list) or len(got) != len(want) or not all(close(g_, w_) for g_, w_ in zip(got, want)) or src != xs:
            found.setdefault(('integrator', 'value'), (fi_, 'the running sum is Y[0] = 0, Y[i] = Y[i-1] + X[i] (a zero or repeated increment carries the total on), input feature untouched',
                                                       {'input': xs, 'output': got, 'expected': want, 'input afterwards': src}))
    for (what, key), (f, desc, wit) in sorted(found.items()):
        ctx.violation('C17.G', f, desc, wit, node=f.node, key='%s:%s' % (what, key))
    if not any(w_ == 'integrator' for w_, _ in found):
        ctx.ok('C17.G', fi_, 'Integrator: Y[0] = 0, Y[i] = Y[i-1] + X[i] on 4 input vectors (zero, negative and single-element cases)', node=fi_.node)
    if not any(w_ == 'abs_curv' for w_, _ in found):
        ctx.ok('C17.G', fa, 'computeAbsCurv: 0 at the first fix, increments = planimetric leg lengths, last = length, track untouched (%d configuration classes)' % len(shapes), node=fa.node)
    if not any(w_ == 'speed' for w_, _ in found):
        ctx.ok('C17.G', fs, 'estimate_speed: distance/time of the documented pair of fixes, NaN iff no time elapsed, track untouched (%d configuration classes)' % len(shapes), node=fs.node)
    ctx.extra['C17.G cases'] = n_cases


RULES = [
    ('C17.G', rule_G, 'quick'),
    ('C17.W', weighed('C17.W', rule_W, ('C17.G',)), 'quick'),
    ('C17.F', rule_F, 'quick'),
]
MIN_OBLIGATIONS = 6
