"""C17 - curvilinear abscissa and speed (analytics.py, cinematics.py, Integrator)."""
import ast
import re

from ..alg import Rat
from ..loader import shape_error, anchor_error
from ..sx import Walker, State
from ..effects import Effects
from ..util import body_nodocstring, names_stored, unparse

ANA = 'tracklib.algo.analytics'
CIN = 'tracklib.algo.cinematics'
OPS = 'tracklib.core.operators'

EXPLANATION = (
    "Static analysis of ds / Integrator.execute / computeAbsCurv / speed / estimate_speed: ds is 0 at index 0 and "
    "the planimetric distance between fixes i and i-1 elsewhere; the integrator is Y[0]=0, Y[i]=Y[i-1]+X[i] over "
    "i in [1,size) (a lower bound of 0 would read index -1, which wraps); computeAbsCurv binds ds to its feature, "
    "integrates it into abs_curv and removes the temporary; every return path of speed is either NaN under "
    "`elapsed == 0` or planimetric distance / elapsed time of the SAME pair of fixes: (1,0) at the first fix, "
    "(N-1,N-2) at the last, (i+1,i-1) inside; the write-effect summaries of computeAbsCurv and estimate_speed "
    "contain no position, timestamp or observation-list write.")
ASSUMPTIONS = ["distance2DTo is the planimetric distance (obs_coords), timestamps subtract to elapsed seconds (C03)"]
TECHNIQUE = "path enumeration with index pairing (F3/F6), negative-index wrap rule (F3), write-effect summaries (F1)"


def vr(v):
    if isinstance(v, Rat):
        a = v.single_atom()
        return a if a is not None else repr(v)
    return repr(v)


def rule_D(ctx):
    """C17.D ds"""
    f = ctx.prog.func(ANA + '.ds')
    tr, i = f.params[:2]
    w = Walker(f, loop_mode='skip')
    outs = [o for o in w.run(body_nodocstring(f), State()) if o.kind == 'return']
    zero = [o for o in outs if any(c.kind == 'cmp' and c.op == '==' and {vr(c.a), vr(c.b)} == {i, '0'} for c, _ in o.state.conds)]
    rest = [o for o in outs if o not in zero]
    ctx.check(len(zero) == 1 and isinstance(zero[0].value, Rat) and zero[0].value.isconst() and zero[0].value.constval() == 0,
              'C17.D', f, 'ds is 0 at the first fix', witness={'returned': [vr(o.value) for o in zero]}, node=f.node, key='zero')
    im1 = repr(Rat.atom(i) - Rat.const(1))
    forms = {'%s.getObs(%s).distance2DTo(%s.getObs(%s))' % (tr, i, tr, im1),
             '%s.getObs(%s).distance2DTo(%s.getObs(%s))' % (tr, im1, tr, i),
             '%s.getObs(%s).position.distance2DTo(%s.getObs(%s).position)' % (tr, i, tr, im1),
             '%s.getObs(%s).position.distance2DTo(%s.getObs(%s).position)' % (tr, im1, tr, i)}
    ctx.check(len(rest) == 1 and vr(rest[0].value) in forms, 'C17.D', f,
              'elsewhere ds is the planimetric (2D) distance between fix i and fix i-1',
              witness={'returned': [vr(o.value) for o in rest]}, node=f.node, key='dist')


def rule_I(ctx):
    """C17.I running sum"""
    f = ctx.prog.func(OPS + '.Integrator.execute')
    tr, afin, afout = f.params[1:4]
    body = body_nodocstring(f)
    loops = [s for s in body if isinstance(s, ast.For)]
    if len(loops) != 1:
        raise shape_error('Integrator.execute: loop not found', f.loc())
    lo = loops[0]
    w = Walker(f, loop_mode='skip')
    pre = [o for o in w.run(body[:body.index(lo)], State()) if o.kind == 'fall'][0].state
    r = w.range_info(lo.iter, pre)
    iv = lo.target.id
    st = State({iv: Rat.atom(iv)})
    outs = [o for o in w.run(lo.body, st) if o.kind in ('fall', 'continue')]
    skipping = [o for o in outs if not any(e.kind == 'store' for e in o.state.events)]
    if skipping and len(skipping) < len(outs):
        for o in skipping[:1]:
            ctx.violation('C17.I', f, 'every index i >= 1 receives Y[i] = Y[i-1] + X[i]',
                          {'path that stores nothing': [repr(c) for c, _ in o.state.conds],
                           'why': 'the slot keeps its initial 0: the running sum falls back to 0 at that fix and restarts (the abscissa decreases, the last value is not the length)'},
                          node=o.node if o.node is not None else lo, key='skip-store')
        outs = [o for o in outs if o not in skipping]
    if len(outs) != 1:
        raise shape_error('Integrator loop body not straight-line', f.loc(lo))
    sts = [e for e in outs[0].state.events if e.kind == 'store']
    if len(sts) != 1:
        raise shape_error('Integrator loop: expected one store', f.loc(lo))
    e = sts[0]
    arr = e.name
    exp = Rat.atom('%s[%s]' % (arr, repr(Rat.atom(iv) - Rat.const(1)))) + Rat.atom('%s.getObsAnalyticalFeature(%s, %s)' % (tr, afin, iv))
    ctx.check(vr(e.index) == iv and isinstance(e.value, Rat) and w.rel.is_zero(e.value - exp), 'C17.I', f,
              'Y[i] = Y[i-1] + X[i]', witness={'stored': vr(e.value), 'expected': vr(exp)}, node=e.node, key='recurrence')
    size = Rat.atom('%s.size()' % tr)
    okhi = r is not None and w.rel.is_zero(r[1] - size) and vr(r[2]) == '1'
    lo_c = r[0].constval() if r is not None and isinstance(r[0], Rat) and r[0].isconst() else None
    ctx.check(okhi and lo_c == 1, 'C17.I', f,
              'the sum runs over i = 1 .. size-1: index 0 keeps its initial 0 and the read Y[i-1] never reaches index -1',
              witness={'range': [vr(x) for x in r] if r else None,
                       'why': 'with i = 0 the read Y[-1] does not fail: it wraps to the last element, so Y[0] becomes X[0] '
                              '(the abscissa no longer starts at 0)' if lo_c == 0 else 'some observations are not summed'},
              node=lo, key='range')
    init = pre.env.get(arr)
    ctx.check(vr(init) in ('([0] Mult %s)' % vr(size), '[0] Mult %s' % vr(size)) or (isinstance(init, Rat) and '[0]' in vr(init) and vr(size) in vr(init)),
              'C17.I', f, 'the running sum starts from zeros (Y[0] = 0), one slot per observation', witness={'initial': vr(init)}, node=lo, key='init')
    w2 = Walker(f, loop_mode='skip')
    o2 = [o for o in w2.run(body, State()) if o.kind == 'return']
    calls = [c for o in o2 for c in o.state.events if c.kind == 'call' and c.name == 'addListToAF']
    ctx.check(len(calls) == 1 and [vr(a) for a in calls[0].args[:2]] == [tr, afout] and unparse(calls[0].node.args[2]) == unparse(e.node.targets[0].value), 'C17.I', f,
              'the sums are written to the output feature', witness={'call': unparse(calls[0].node) if calls else None}, node=f.node, key='write')


def rule_W(ctx):
    """C17.W computeAbsCurv wiring"""
    f = ctx.prog.func(CIN + '.computeAbsCurv')
    tr = f.params[0]
    m = ctx.prog.module(ANA)
    names = {}
    for k in ('BIAF_DS', 'BIAF_ABS_CURV', 'BIAF_SPEED'):
        v = m.consts.get(k)
        if not isinstance(v, ast.Constant):
            raise anchor_error('%s not found' % k, ANA)
        names[k] = v.value
    w = Walker(f, loop_mode='skip')
    outs = [o for o in w.run(body_nodocstring(f), State()) if o.kind == 'return']
    if not outs:
        raise shape_error('computeAbsCurv has no return', f.loc())
    n = 0
    for o in outs:
        evs = [e for e in o.state.events if e.kind == 'call']
        add = [e for e in evs if e.name == 'addAnalyticalFeature']
        op = [e for e in evs if e.name == 'operate']
        rm = [e for e in evs if e.name == 'removeAnalyticalFeature']
        conds = [repr(c) for c, _ in o.state.conds]
        fresh = any(c.startswith('not ') and 'BIAF_ABS_CURV' in c for c in conds)
        if add:
            ctx.check(vr(add[0].args[0]) == 'ds' and vr(add[0].args[1]) == 'BIAF_DS', 'C17.W', f,
                      'the ds algorithm is bound to the ds feature', witness={'call': unparse(add[0].node)}, node=add[0].node, key='bind')
        if fresh:
            n += 1
            ok = len(op) == 1 and [vr(a) for a in op[0].args[:3]] == ['Operator.INTEGRATOR', 'BIAF_DS', 'BIAF_ABS_CURV']
            ctx.check(ok, 'C17.W', f, 'abs_curv is the integral of ds', witness={'call': unparse(op[0].node) if op else None}, node=f.node, key='integrate')
        ctx.check(len(rm) == 1 and vr(rm[0].args[0]) == 'BIAF_DS' and all(e.seq < rm[0].seq for e in add + op), 'C17.W', f,
                  'the temporary ds feature is removed after use', witness={}, node=f.node, key='cleanup:' + ';'.join(conds))
        ctx.check(vr(o.value) == '%s.getAnalyticalFeature(BIAF_ABS_CURV)' % tr, 'C17.W', f, 'the abscissa feature is returned',
                  witness={'returned': vr(o.value)}, node=o.node, key='ret:' + ';'.join(conds))
    if n == 0:
        raise shape_error('computeAbsCurv: no path computes the abscissa', f.loc())
    g = ctx.prog.func(CIN + '.estimate_speed')
    calls = [c for c in ast.walk(g.node) if isinstance(c, ast.Call) and getattr(c.func, 'attr', None) == 'addAnalyticalFeature']
    ok = len(calls) == 1 and unparse(calls[0].args[0]) == 'speed' and \
        (len(calls[0].args) == 1 or unparse(calls[0].args[1]) in ('BIAF_SPEED', "'speed'"))
    ctx.check(ok and names['BIAF_SPEED'] == 'speed', 'C17.W', g, 'estimate_speed binds the speed algorithm to the speed feature',
              witness={'call': unparse(calls[0]) if calls else None}, node=g.node, key='speed-bind')


def rule_S(ctx):
    """C17.S speed on every return path"""
    f = ctx.prog.func(ANA + '.speed')
    tr, i = f.params[:2]
    w = Walker(f, loop_mode='skip')
    outs = [o for o in w.run(body_nodocstring(f), State()) if o.kind == 'return']
    if len(outs) < 6:
        raise shape_error('speed(): expected three arms with two outcomes each', f.loc())
    size = Rat.atom('%s.size()' % tr)
    arms_seen = set()
    for o in outs:
        conds = [cj for c, _ in o.state.conds for cj in c.conjuncts()]
        pathtxt = [repr(c) for c, _ in o.state.conds]
        def has(op, a, b):
            return any(cj.kind == 'cmp' and cj.op == op and isinstance(cj.a, Rat) and isinstance(cj.b, Rat) and
                       (w.rel.is_zero((cj.a - cj.b) - (a - b)) or w.rel.is_zero((cj.a - cj.b) + (a - b))) for cj in conds)
        i_ = Rat.atom(i)
        only_size = bool(conds) and all(cj.kind == 'cmp' and isinstance(cj.a, Rat) and isinstance(cj.b, Rat) and
                                        set((cj.a - cj.b).atoms()) == {'%s.size()' % tr} for cj in conds)
        if only_size:
            import operator as _op
            ops = {'<': _op.lt, '<=': _op.le, '==': _op.eq, '!=': _op.ne}
            hit = [n_ for n_ in (2, 3, 4, 10) if all(ops[cj.op]((cj.a - cj.b).subst('%s.size()' % tr, Rat.const(n_)).constval(), 0) for cj in conds)]
            ctx.check(not hit, 'C17.S', f, 'an early answer for degenerate tracks concerns only tracks of fewer than 2 fixes',
                      witness={'guard': pathtxt, 'returned': vr(o.value), 'track sizes caught': hit,
                               'why': 'a track of 2 fixes has a well-defined one-sided speed at both ends: d(0,1)/(t1-t0)'}, node=o.node, key='degenerate')
            continue
        if has('==', i_, Rat.const(0)):
            arm, hi, lo = 'first', Rat.const(1), Rat.const(0)
        elif has('==', i_, size - Rat.const(1)):
            arm, hi, lo = 'last', size - Rat.const(1), size - Rat.const(2)
        elif has('!=', i_, Rat.const(0)) and has('!=', i_, size - Rat.const(1)):
            arm, hi, lo = 'interior', i_ + Rat.const(1), i_ - Rat.const(1)
        else:
            raise shape_error('speed(): arm of a return path not understood: %s' % pathtxt, f.loc(o.node))
        arms_seen.add(arm)
        ob = lambda k: '%s.getObs(%s)' % (tr, repr(k))
        dts = {Rat.atom(ob(hi) + '.timestamp') - Rat.atom(ob(lo) + '.timestamp')}
        dss = {'%s.position.distance2DTo(%s.position)' % (ob(hi), ob(lo)), '%s.position.distance2DTo(%s.position)' % (ob(lo), ob(hi)),
               '%s.distance2DTo(%s)' % (ob(hi), ob(lo)), '%s.distance2DTo(%s)' % (ob(lo), ob(hi))}
        dt = next(iter(dts))
        v = o.value
        is_nan = vr(v) in ('NAN', 'nan', "float('nan')", 'math.nan', 'np.nan')
        zero_guard = has('==', dt, Rat.const(0))
        nonzero_guard = has('!=', dt, Rat.const(0))
        def _expected(cj):
            if not (cj.kind == 'cmp' and isinstance(cj.a, Rat) and isinstance(cj.b, Rat)):
                return False
            d_ = cj.a - cj.b
            if set(d_.atoms()) == {'%s.size()' % tr}:
                return True                      # complement of a degenerate-size guard (checked on its own path)
            return cj.op in ('==', '!=') and (w.rel.is_zero(d_ - dt) or w.rel.is_zero(d_ + dt) or i in d_.atoms())
        other_tests = [repr(cj) for cj in conds if not _expected(cj)]
        if is_nan:
            ctx.check(zero_guard and not other_tests, 'C17.S', f,
                      '%s fix: NaN is returned exactly when the elapsed time between fixes %s and %s is zero' % (arm, vr(hi), vr(lo)),
                      witness={'path conditions': pathtxt, 'elapsed time expected in the test': vr(dt)}, node=o.node, key='nan:' + arm)
        else:
            okq = False
            if isinstance(v, Rat) and not v.d.isconst():
                num, den = Rat(v.n), Rat(v.d)
                okq = (w.rel.is_zero(den - dt) and vr(num) in dss) or (w.rel.is_zero(den + dt) and vr(Rat.const(0) - num) in dss)
            ctx.check(okq and nonzero_guard and not other_tests, 'C17.S', f,
                      '%s fix: speed = planimetric distance(%s, %s) / (t[%s] - t[%s]), returned exactly when that elapsed time is not zero'
                      % (arm, vr(hi), vr(lo), vr(hi), vr(lo)),
                      witness={'returned': vr(v)[:200], 'path conditions': pathtxt, 'unexpected tests': other_tests}, node=o.node, key='quot:' + arm)
    ctx.check(arms_seen == {'first', 'last', 'interior'}, 'C17.S', f, 'first fix, last fix and interior fixes each have their own arm',
              witness={'arms': sorted(arms_seen)}, node=f.node, key='arms')


def rule_F(ctx):
    """C17.F positions and timestamps unchanged"""
    eff = Effects(ctx.prog)
    for q in (CIN + '.computeAbsCurv', CIN + '.estimate_speed', ANA + '.speed', ANA + '.ds'):
        fi = ctx.prog.func(q)
        e = eff.effects_of(q)
        bad = sorted(e & {'POS', 'TIME', 'OBSLIST'})
        wit = {loc: eff.why(q, loc) for loc in bad}
        ctx.check(not bad, 'C17.F', fi, '%s writes no position, timestamp or observation list (effects: %s)' % (fi.name, sorted(e)),
                  witness={'write chains': wit}, node=fi.node, key='frame:' + fi.name)


RULES = [
    ('C17.D', rule_D, 'quick'),
    ('C17.I', rule_I, 'quick'),
    ('C17.W', rule_W, 'quick'),
    ('C17.S', rule_S, 'quick'),
    ('C17.F', rule_F, 'quick'),
]
MIN_OBLIGATIONS = 15
