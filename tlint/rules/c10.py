"""C10 - map-matched positions (tracklib/algo/mapping.py, dynamics.py)."""
import ast

from ..alg import Rat
from ..loader import shape_error, anchor_error
from ..report import weighed
from ..sx import Walker, State
from ..effects import Effects
from .. import absint
from ..util import body_nodocstring, names_stored, unparse

MAP = 'tracklib.algo.mapping'
DYN = 'tracklib.algo.dynamics'

EXPLANATION = (
    "Static analysis of mapOnNetwork / __mapOnNetwork / __distToNode / proj_polyligne / proj_segment: the functions are "
    "interpreted (not executed) by the checker's AST interpreter on the repository's own Track / Obs / ENUCoords objects; "
    "only the network's and the decoder's interfaces are stand-ins.  For every observation the decoder must see exactly the "
    "candidates (foot of the perpendicular on the edge, the edge, abscissa of the foot from the source node and from the target "
    "node) of the neighbouring edges nearer than the search radius, or the unmatched sentinel (its own position, -1, -1, -1); the "
    "projection is the nearest point of the polyline with its segment; the end-node distances pair abscissa S[i] with vertex i "
    "and S[i+1] with vertex i+1; arguments reach the per-track matcher unchanged; the decoder writes its choice on the track "
    "it is given; the call tree writes no position, timestamp or observation list of the track.")
ASSUMPTIONS = ["callees are resolved by name with receiver typing from constructors/annotations (DESIGN section 2, effects)"]
TECHNIQUE = "abstract interpretation of mapOnNetwork end to end on concrete edge geometries and observations (the repository's Track / Obs / ENUCoords; network index and decoder behind recording stand-ins; 140 matchings over neighbourhoods x distances below / at / above the radius, two tracks per call, switches, zero radius; oracle = nearest point of the polyline computed by the checker) (C10.E); the same function with an uninterpreted projector for provenance (C10.D, weighed against C10.E); the decoder's write-back on a second decoding of the same track (C10.V); __distToNode (C10.I), proj_segment / proj_polyligne / mapOnTrack (C10.P, C10.M) and mapOnNetwork with a recording per-track matcher (C10.A) interpreted on bounded case domains; symbolic path rules weighed against those (C10.Y, C10.N, C10.W); interprocedural write-effect summaries (C10.F)"


def vr(v):
    if isinstance(v, Rat):
        a = v.single_atom()
        return a if a is not None else repr(v)
    return repr(v)


def _private(ctx, mod, suffix):
    for q, fi in ctx.prog.functions.items():
        if q.startswith(mod + '.') and fi.name.endswith(suffix) and fi.cls is None:
            return fi
    # the helper may have been moved to another module of the package (and imported back, possibly with fewer underscores)
    bare = suffix.lstrip('_')
    moved = [fi for q, fi in ctx.prog.functions.items() if fi.cls is None and fi.parent is None and fi.name.lstrip('_') == bare]
    if len(moved) == 1:
        return moved[0]
    raise anchor_error('%s.*%s not found' % (mod, suffix), mod)


def _const_anywhere(ctx, name):
    """literal value of a module-level constant of that name (first module that defines it as a literal)"""
    for m in ctx.prog.modules.values():
        n = m.consts.get(name)
        if n is not None:
            try:
                return ast.literal_eval(n)
            except (ValueError, TypeError, SyntaxError):
                continue
    return None


def rule_D(ctx):
    """C10.D / C10.S candidates: __mapOnNetwork interpreted on abstract objects.

    The candidate-building code moves values around and takes one decision per (observation, neighbouring edge): distance vs search
    radius.  The projector, the end-node distance helper, the index and the decoder are uninterpreted (each returns a tag recording what
    it was given); the function body is interpreted by tlint.orders (not executed) for 0, 1 or 2 neighbouring edges per observation
    (incl. the index answering None) and every position of each distance relative to the radius (below / equal / above), on two
    tracks in a row (the candidate table is module-global)."""
    from .. import orders
    import itertools
    import math
    f = _private(ctx, MAP, '__mapOnNetwork')
    pj = _private(ctx, MAP, 'projOnTrack')
    dn = _private(ctx, MAP, '__distToNode')
    g = ctx.prog.func(MAP + '.mapOnNetwork')
    gp = g.params
    if len(gp) < 5:
        raise shape_error('mapOnNetwork: parameters not understood', g.loc())
    RADIUS = 50.0

    class Tag(orders.PyStub):
        def __init__(self, *tag):
            self.tag = tag

        def __eq__(self, o):
            return isinstance(o, Tag) and o.tag == self.tag

        def __ne__(self, o):
            return not self.__eq__(o)

        def __hash__(self):
            return hash(self.tag)

        def __repr__(self):
            return '<%s>' % ' '.join(str(t) for t in self.tag)

        def copy(self):
            return Tag(*self.tag)

        def __sub__(self, o):
            return Tag('(', self, '-', o, ')')

        def __rsub__(self, o):
            return Tag('(', o, '-', self, ')')

        def __add__(self, o):
            return Tag('(', self, '+', o, ')')

        __radd__ = __add__

    class Pos(Tag):
        """the position of observation k of a track: a tag, with coordinates for code that reads them - the same easting for every
        observation of a track (a vehicle heading due north), another northing for each"""
        isa = ('ENUCoords',)

        def getX(self):
            return 100.0

        def getY(self):
            return 10.0 * self.tag[2]

        def getZ(self):
            return 0.0

        def copy(self):
            return Pos(*self.tag)

    class ObsS(orders.PyStub):
        isa = ('Obs',)

        def __init__(self, position):
            self.position = position
            self.timestamp = Tag('timestamp of', position)

    class TrackS(orders.PyStub):
        isa = ('Track',)
        # any other Track method the code calls is interpreted from the repository's own class, on these observations
        repo_methods = absint.methods_of(ctx, 'tracklib.core.track.Track')
        clsname = 'Track'
        owners = absint.owners_of(ctx, 'tracklib.core.track.Track')

        def __init__(self, name, n):
            self.name = name
            self.obs = [ObsS(Pos('position', name, k)) for k in range(n)]
            self._Track__POINTS = self.obs
            self.created = {}

        def __len__(self):
            return len(self.obs)

        def size(self):
            return len(self.obs)

        def __getitem__(self, k):
            if isinstance(k, int):
                return self.obs[k]
            raise orders.Unsupported('track[%r]' % (k,))

        def getObs(self, k):
            return self.obs[k]

        def createAnalyticalFeature(self, name, val=0.0):
            self.created[name] = val

    class Edge(orders.PyStub):
        def __init__(self, e):
            self.geom = Tag('geometry of edge', e)
            self.weight = Tag('weight of edge', e)

    class Edges(orders.PyStub):
        def __getitem__(self, k):
            if isinstance(k, Tag) and k.tag[0] == 'edge id of':
                return Edge(k.tag[1])
            raise _Bad('the geometry is looked up under the id of the neighbouring edge (EDGES[getEdgeId(elem)])', {'EDGES key': repr(k)})

    class Index(orders.PyStub):
        csize, lsize = 4, 7
        dX, dY = 25.0, 30.0

        def __init__(self, answers):
            self.answers = answers
            self.asked = []

        def neighborhood(self, obj, j=None, unit=0):
            self.asked.append(obj)
            if not (isinstance(obj, Tag) and obj.tag[0] == 'position'):
                raise _Bad('the index is asked for the neighbourhood of the current observation position', {'asked for': repr(obj)})
            return self.answers[obj.tag[1:]]

    class Net(orders.PyStub):
        def __init__(self, answers):
            self.EDGES = Edges()
            self.spatial_index = Index(answers)

        def getEdgeId(self, e):
            return Tag('edge id of', e)

    class Hmm(orders.PyStub):
        def __init__(self, S=None, Q=None, P=None, log=False, stationarity=False):
            self.states = S
            self.calls = []

        def setStates(self, fn):
            self.states = fn

        def setTransitionModel(self, fn):
            pass

        def setObservationModel(self, fn):
            pass

        def setLog(self, v):
            pass

        def estimate(self, track, obs=None, log=False, mode=None, verbose=0, **kw):
            lists = [list(self.states(track, k)) for k in range(len(track))] if self.states is not None else None
            self.calls.append((track, mode, lists))

    class _Bad(Exception):
        def __init__(self, desc, wit):
            self.desc, self.wit = desc, wit

    dist = {}

    def projector(pos, geom):
        if not (isinstance(pos, Tag) and pos.tag[0] == 'position' and isinstance(geom, Tag) and geom.tag[0] == 'geometry of edge'):
            raise _Bad('the projection is that of an observation position on an edge geometry', {'projected': repr(pos), 'onto': repr(geom)})
        return (Tag('projection of', pos, 'on', geom), dist[(pos.tag[1:], geom.tag[1])], Tag('segment of', pos, 'on', geom))

    def dist_to_node(eg, p_, v, end=0):
        return Tag('distance to end', end, eg, p_, v)
    hmms = []

    def mk_hmm(*a_, **k_):
        h = Hmm(*a_, **k_)
        hmms.append(h)
        return h
    glob = {}
    consts = {}

    def name_of(nm):
        fi = ctx.prog.maybe_func(MAP + '.' + nm)
        if fi is not None and fi.cls is None:
            return orders.make_func(fi.node, funcs)
        if nm not in consts:
            consts[nm] = _const_anywhere(ctx, nm)
        if consts[nm] is not None:
            return consts[nm]
        from .. import absint as _absint
        return _absint.funcs(ctx, MAP)['__name__'](nm)
    funcs = {pj.name: projector, dn.name: dist_to_node, 'HMM': mk_hmm, 'ceil': math.ceil, 'floor': math.floor, 'print': lambda *a_, **k_: None,
             '__globals__': glob, '__name__': name_of,
             '__resolve__': lambda call, fname: (name_of(fname) if isinstance(call.func, ast.Name) and ctx.prog.maybe_func(MAP + '.' + fname) is not None else None)}
    TrackS.repo_funcs = funcs
    elems = ['e1', 'e2']
    rels = {'below': RADIUS - 1.0, 'equal': RADIUS, 'above': RADIUS + 1.0}
    # per observation: None / [] / one edge x 3 relations / two edges x 9 relations
    options = [('index answers None', None, {}), ('no neighbouring edge', [], {})]
    for r1 in rels:
        options.append(('one edge, distance %s the radius' % r1, ['e1'], {'e1': r1}))
    for r1, r2 in itertools.product(rels, rels):
        options.append(('two edges, distances %s / %s the radius' % (r1, r2), ['e1', 'e2'], {'e1': r1, 'e2': r2}))
    n_cases = 0
    bad = None
    # the optional switches of the function (a debug dump of the kept candidates, progress output) do not change the candidates
    class _Sink(orders.PyStub):
        def write(self, s_):
            if not isinstance(s_, str):
                raise TypeError('write() argument must be str')
            return len(s_)

        def close(self):
            pass

        def __enter__(self):
            return self

        def __exit__(self, *a_):
            return False

    class _Wkt(orders.PyStub):
        def __init__(self, obs, *a_, **k_):
            self.obs = obs

        def toWKT(self):
            return 'LINESTRING(...)'
    funcs.update({'open': lambda *a_, **k_: _Sink(), 'Obs': lambda p_, *a_: Tag('observation at', p_), 'Track': _Wkt, 'progressbar': lambda x_, **k_: x_})
    pairs_ = [(a_, b_) for a_ in options for b_ in options[:3]] + [(b_, a_) for a_ in options[3:] for b_ in options[:1]]
    switch_names = [p_ for p_ in gp[5:] if p_ in ('debug', 'verbose')]
    runs_ = [(o0, o1, {}) for o0, o1 in pairs_]
    for sw in switch_names:
        runs_ += [(o0, o1, {sw: True}) for o0, o1 in pairs_[3:15]]
    # a search radius of zero: nothing is nearer than the radius, every observation is flagged unmatched
    zero_opts = [('one edge at distance 0 (radius 0)', ['e1'], {'e1': 'zero'}), ('two edges at distances 0 and 1 (radius 0)', ['e1', 'e2'], {'e1': 'zero', 'e2': 'one'})]
    runs_ += [(zero_opts[0], zero_opts[1], {'__radius__': 0.0}), (zero_opts[1], options[1], {'__radius__': 0})]
    try:
        for o0, o1, switches in runs_:
            if bad is not None:
                break
            glob.clear()
            # two tracks in one call: the second must not be decoded with the first one's candidates (the table is module-global)
            plan = {'T1': (o0, o1), 'T2': (o1, o0, o0)}
            trs = {tname: TrackS(tname, len(opts)) for tname, opts in plan.items()}
            answers = {}
            dist.clear()
            for tname, opts in plan.items():
                for k, op in enumerate(opts):
                    answers[(tname, k)] = list(op[1]) if op[1] is not None else None
                    for e, rel in op[2].items():
                        dist[((tname, k), e)] = {'zero': 0.0, 'one': 1.0}.get(rel, rels.get(rel))
            net = Net(answers)
            del hmms[:]
            args = {gp[0]: [trs['T1'], trs['T2']], gp[1]: net, gp[2]: 7.0, gp[3]: 3.0, gp[4]: RADIUS}
            switches = dict(switches)
            if '__radius__' in switches:
                args[gp[4]] = switches.pop('__radius__')
            args.update(switches)
            orders.make_func(g.node, funcs)(**args)
            n_cases += 1
            # every track given is decoded: a track that no decoder run ever sees keeps observations that are neither matched nor flagged unmatched
            decoded = [c_[0] for h in hmms for c_ in h.calls]
            left_out = [tname for tname in ('T1', 'T2') if not any(d_ is trs[tname] for d_ in decoded)]
            if left_out:
                tn = left_out[0]
                bad = ('sentinel', 'every track given is decoded: each of its observations ends up matched or flagged unmatched',
                       {'track never handed to the decoder': tn, 'neighbourhoods of its observations': [op[0] for op in plan[tn]], 'switches': dict(switches)})
                break
            if len(hmms) != 2 or any(len(h.calls) != 1 or h.calls[0][2] is None for h in hmms):
                raise shape_error('mapOnNetwork: the decoder is not created, given a state function and run exactly once per track', f.loc())
            for tname, h in zip(('T1', 'T2'), hmms):
                opts = plan[tname]
                tr = trs[tname]
                trk, mode, lists = h.calls[0]
                mode_want = _const_anywhere(ctx, 'MODE_OBS_AS_2D_POSITIONS')
                if trk is not tr or mode != mode_want:
                    bad = ('estimate', 'the decoder runs on the same track with observations taken as 2D positions',
                           {'track passed': getattr(trk, 'name', repr(trk)), 'mode passed': mode, 'MODE_OBS_AS_2D_POSITIONS': mode_want})
                    break
                for k, op in enumerate(opts):
                    pos = tr.obs[k].position
                    must, may = set(), set()
                    for e, rel in op[2].items():
                        g_ = Tag('geometry of edge', e)
                        pr = Tag('projection of', pos, 'on', g_)
                        sg = Tag('segment of', pos, 'on', g_)
                        cand = (pr, e, Tag('distance to end', 0, g_, pr, sg), Tag('distance to end', 1, g_, pr, sg))
                        if rel == 'below':
                            must.add(cand)
                        if rel in ('equal', 'zero'):
                            may.add(cand)
                    got = lists[k]
                    gset = set(got)
                    sentinel = (pos, -1, -1, -1)
                    case = {'track': tname, 'observation': k, 'neighbourhood': op[0], 'candidates the decoder sees': [repr(c_) for c_ in got]}
                    if switches:
                        case['switches'] = dict(switches)
                    if gset - {sentinel} - must - may or not must <= gset:
                        wrong = sorted(repr(c_) for c_ in (gset - {sentinel} - must - may))
                        missing = sorted(repr(c_) for c_ in (must - gset))
                        bad = ('radius', 'the candidates of observation k are exactly: for every neighbouring edge whose projection distance is below the search radius, '
                               '(projected point of position k on that edge, the edge, distances to its two end nodes computed from the same geometry, point and segment)',
                               dict(case, **{'kept although not such a candidate': wrong, 'missing': missing}))
                        break
                    if not (must | (may & gset)) and got != [sentinel]:
                        bad = ('sentinel', 'an observation without candidate receives the unmatched sentinel (its own position, -1, -1, -1) and nothing else',
                               dict(case, **{'expected': repr([sentinel])}))
                        break
                    if (must | (may & gset)) and sentinel in gset:
                        bad = ('sentinel', 'a matched observation is not flagged unmatched', case)
                        break
                if bad is not None:
                    break
    except orders.Unsupported as ex:
        raise shape_error('__mapOnNetwork not interpretable: %s' % ex, f.loc())
    except _Bad as ex:
        bad = ('provenance', ex.desc, ex.wit)
    except (IndexError, KeyError, TypeError, AttributeError, NameError) as ex:
        bad = ('fails', '__mapOnNetwork does not fail while building the candidates', {'exception': '%s: %s' % (type(ex).__name__, ex)})
    if bad is not None:
        rule = 'C10.S' if bad[0] == 'sentinel' else 'C10.D'
        ctx.violation(rule, f, bad[1], bad[2], node=f.node, key=bad[0])
    else:
        ctx.ok('C10.D', f, 'every candidate the decoder sees for observation k is (projection of position k on a neighbouring edge, that edge, its two end-node '
                           'distances) with projection distance below (or equal to) the radius, and all those below it are present: %d interpreted cases' % n_cases, node=f.node)
        ctx.ok('C10.S', f, 'an observation without candidate receives exactly the unmatched sentinel (its own position, -1, -1, -1)', node=f.node)
        ctx.ok('C10.D', f, 'the candidate table seen by the decoder belongs to the current track (two tracks in a row)', node=f.node)
        ctx.ok('C10.D', f, 'the decoder runs on the same track with observations taken as 2D positions', node=f.node)
    ctx.extra['C10.D cases'] = n_cases


def rule_E(ctx):
    """C10.E the candidates, end to end on concrete geometry: mapOnNetwork interpreted (with everything it calls in its module and
    in the geometry utilities) on edge geometries and observations that are the repository's own Track / Obs / ENUCoords objects.  Only
    the other modules stand behind their interface (the network: EDGES, getEdgeId, the index's neighborhood and cell sizes; the
    decoder: its constructor / setters and estimate, which records the state lists).  Two perpendicular slanted edges of several
    vertices, observations placed at a chosen distance (below / at / above the search radius) of each, the index answering None, no
    edge, one edge or two, two tracks in one call, the optional switches, a radius of zero.  Whatever the shape of the code, the decoder
    must see for observation k exactly the candidates (foot of the perpendicular on the edge, the edge, abscissa of the foot from the
    source node, from the target node) of the neighbouring edges nearer than the radius - or the unmatched sentinel."""
    from .. import orders
    import itertools
    import math
    f = _private(ctx, MAP, '__mapOnNetwork')
    g = ctx.prog.func(MAP + '.mapOnNetwork')
    gp = g.params
    if len(gp) < 5:
        raise shape_error('mapOnNetwork: parameters not understood', g.loc())
    RADIUS = 50.0
    hmms = []

    class Hmm(orders.PyStub):
        def __init__(self, S=None, Q=None, P=None, log=False, stationarity=False):
            self.states = S
            self.calls = []

        def setStates(self, fn_):
            self.states = fn_

        def setTransitionModel(self, fn_):
            pass

        def setObservationModel(self, fn_):
            pass

        def setLog(self, v):
            pass

        def estimate(self, track, obs=None, log=False, mode=None, verbose=0, **kw):
            lists = [list(self.states(track, k)) for k in range(track.call('__len__'))] if self.states is not None else None
            self.calls.append((track, mode, lists))

    def mk_hmm(*a_, **k_):
        h = Hmm(*a_, **k_)
        hmms.append(h)
        return h

    class _Sink(orders.PyStub):
        def write(self, s_):
            if not isinstance(s_, str):
                raise TypeError('write() argument must be str')
            return len(s_)

        def close(self):
            pass

        def __enter__(self):
            return self

        def __exit__(self, *a_):
            return False
    from .. import npstub
    fn = absint.funcs(ctx, MAP, dict(npstub.stubs(), **{'HMM': mk_hmm, 'open': lambda *a_, **k_: _Sink(), 'print': lambda *a_, **k_: None}))
    OT = absint.classref(ctx, 'tracklib.core.obs_time.ObsTime', fn)
    T = absint.classref(ctx, 'tracklib.core.track.Track', fn)
    EN = absint.classref(ctx, 'tracklib.core.obs_coords.ENUCoords', fn)
    fn['sqrt'], fn['hypot'] = math.sqrt, math.hypot
    fn['progressbar'] = lambda x_, **k_: (v_ for v_ in x_)          # (progressbar.progressbar wraps its iterable in a generator)
    U = (0.8, 0.6)          # direction of edge 0 (and normal of edge 1)
    N = (-0.6, 0.8)         # direction of edge 1 (and normal of edge 0)
    PARAMS = {0: (U, [-300.0, -20.0, 10.0, 10.0, 120.0, 300.0]), 1: (N, [-250.0, 20.0, 90.0, 280.0])}

    def geometry(e):
        d_, ts = PARAMS[e]
        pts = [(t_ * d_[0], t_ * d_[1]) for t_ in ts]
        S = [0.0]
        for a_, b_ in zip(pts, pts[1:]):
            S.append(S[-1] + math.hypot(b_[0] - a_[0], b_[1] - a_[1]))
        tr = T([absint.real_obs(ctx, fn, EN(x_, y_, 12.0 + k_)) for k_, (x_, y_) in enumerate(pts)], 'u', 'edge %d' % e)
        tr.call('createAnalyticalFeature', 'abs_curv', list(S))
        return tr, pts, S

    def oracle(e, q):
        """nearest point of the polyline (first nearest segment, zero-length segments skipped), by the checker"""
        _, pts, S = GEOM[e]
        best = None
        for i_, ((x1, y1), (x2, y2)) in enumerate(zip(pts, pts[1:])):
            L2 = (x2 - x1) ** 2 + (y2 - y1) ** 2
            if L2 == 0:
                continue
            t_ = max(0.0, min(1.0, ((q[0] - x1) * (x2 - x1) + (q[1] - y1) * (y2 - y1)) / L2))
            px, py = x1 + t_ * (x2 - x1), y1 + t_ * (y2 - y1)
            d_ = math.hypot(q[0] - px, q[1] - py)
            if best is None or d_ < best[0] - 1e-9:
                best = (d_, px, py, i_)
        d_, px, py, i_ = best
        return d_, px, py, S[i_] + math.hypot(px - pts[i_][0], py - pts[i_][1]), S[-1] - S[i_ + 1] + math.hypot(px - pts[i_ + 1][0], py - pts[i_ + 1][1])

    class EdgeS(orders.PyStub):
        isa = ('Edge',)

        def __init__(self, e):
            self.geom = GEOM[e][0]
            self.id = 'edge-%d' % e
            self.weight = 2.5 * GEOM[e][2][-1] + 40.0       # (a routing cost, not the length)

    class Index(orders.PyStub):
        csize, lsize = 4, 7
        dX, dY = 25.0, 30.0              # (ground size of a cell: half the usual search radius, far above a radius of zero)
        xmin, ymin, xmax, ymax = -400.0, -400.0, -300.0, -190.0

        def __init__(self, answers):
            self.answers = answers

        def neighborhood(self, obj, j=None, unit=0):
            if not (isinstance(obj, orders.Obj) and 'E' in obj.fields):
                raise _Bad('the index is asked for the neighbourhood of the current observation position', {'asked for': repr(obj)})
            key = (round(obj.fields['E'], 6), round(obj.fields['N'], 6))
            if key not in self.answers:
                raise _Bad('the index is asked for the neighbourhood of the current observation position', {'asked for': list(key)})
            a_ = self.answers[key]
            return list(a_) if a_ is not None else None

    class Net(orders.PyStub):
        isa = ('Network',)

        def __init__(self, answers):
            self.EDGES = {'edge-%d' % e: EdgeS(e) for e in PARAMS}
            self.spatial_index = Index(answers)

        def getEdgeId(self, e):
            if e not in PARAMS:
                raise KeyError(e)
            return 'edge-%d' % e

        def getEdge(self, eid):
            return self.EDGES[eid]

    class _Bad(Exception):
        def __init__(self, desc, wit):
            self.desc, self.wit = desc, wit
    rels = {'below': RADIUS - 1.0, 'equal': RADIUS, 'above': RADIUS + 1.0}
    options = [('index answers None', None, {}), ('no neighbouring edge', [], {})]
    for r1 in rels:
        options.append(('one edge, distance %s the radius' % r1, [0], {0: r1}))
        options.append(('the other edge alone, distance %s the radius' % r1, [1], {1: r1}))
    for r1, r2 in itertools.product(rels, rels):
        options.append(('two edges, distances %s / %s the radius' % (r1, r2), [0, 1], {0: r1, 1: r2}))
    pairs_ = [(a_, b_) for a_ in options for b_ in options[:3]] + [(b_, a_) for a_ in options[3:] for b_ in options[:1]]
    switch_names = [p_ for p_ in gp[5:] if p_ in ('debug', 'verbose')]
    runs_ = [(o0, o1, {}) for o0, o1 in pairs_]
    for sw in switch_names:
        runs_ += [(o0, o1, {sw: True}) for o0, o1 in pairs_ if o1 is options[1]]
    # a vehicle heading due north, then one heading due east: consecutive fixes share a coordinate, not their candidates
    north = [('fix at (30, %g), both edges in the cell' % y_, [0, 1], {}, (30.0, y_)) for y_ in (22.5, 60.0, 110.0)]
    east = [('fix at (%g, 45), both edges in the cell' % x_, [0, 1], {}, (x_, 45.0)) for x_ in (60.0, 0.0, 160.0)]
    runs_ += [(north[0], north[1], {'__third__': north[2]}), (east[0], east[1], {'__third__': east[2]}), (north[2], north[0], {'__third__': north[1]})]
    zero_opts = [('one edge at distance 0 (radius 0)', [0], {0: 'zero'}), ('two edges at distances 0 and 1 (radius 0)', [0, 1], {0: 'zero', 1: 'one'})]
    runs_ += [(zero_opts[0], zero_opts[1], {'__radius__': 0.0}), (zero_opts[1], options[1], {'__radius__': 0})]
    n_cases = 0
    bad = None
    mode_want = _const_anywhere(ctx, 'MODE_OBS_AS_2D_POSITIONS')
    try:
        GEOM = {e: geometry(e) for e in PARAMS}
        for o0, o1, switches in runs_:
            if bad is not None:
                break
            fn['__globals__'].pop('STATES', None)
            switches = dict(switches)
            plan = {'T1': (o0, o1), 'T2': (o1, o0, switches.pop('__third__', o0))}
            answers = {}
            where = {}
            trs = {}
            for ti, (tname, opts) in enumerate(plan.items()):
                obs_ = []
                for k, op in enumerate(opts):
                    dist_ = {e: {'zero': 0.0, 'one': 1.0}.get(rel, rels.get(rel)) for e, rel in op[2].items()}
                    far = 140.0 + 13.0 * k + 31.0 * ti                   # (well inside the extent of each edge, far beyond the radius)
                    d0, d1 = dist_.get(0, far), dist_.get(1, far)
                    # distance d0 of edge 0 (along its normal N) and d1 of edge 1 (along its normal U)
                    q = (d0 * N[0] + d1 * U[0], d0 * N[1] + d1 * U[1])
                    if op[1] is None:
                        q = (1000.0 + 10.0 * k + ti, -1000.0)
                    if len(op) > 3:
                        q = op[3]
                    where[(tname, k)] = q
                    answers[(round(q[0], 6), round(q[1], 6))] = list(op[1]) if op[1] is not None else None
                    # (the fixes of the first track carry the same instant, those of the second are not in chronological order: the
                    # candidates of observation k are those of position k all the same)
                    obs_.append(absint.real_obs(ctx, fn, EN(q[0], q[1], 3.0), OT(2020, 1, 1, 10, 0, (0, 0, 0)[k] if ti == 0 else (30, 10, 20)[k], 0)))
                trs[tname] = T(obs_, 'u', tname)
            net = Net(answers)
            del hmms[:]
            TC = absint.classref(ctx, 'tracklib.core.track_collection.TrackCollection', fn)
            args = {gp[0]: TC([trs['T1'], trs['T2']]), gp[1]: net, gp[2]: 7.0, gp[3]: 3.0, gp[4]: RADIUS}
            if '__radius__' in switches:
                args[gp[4]] = switches.pop('__radius__')
            radius = args[gp[4]]
            args.update(switches)
            orders.make_func(g.node, fn)(**args)
            n_cases += 1
            decoded = [c_[0] for h in hmms for c_ in h.calls]
            left_out = [tname for tname in ('T1', 'T2') if not any(d_ is trs[tname] for d_ in decoded)]
            if left_out:
                tn = left_out[0]
                bad = ('sentinel', 'every track given is decoded: each of its observations ends up matched or flagged unmatched',
                       {'track never handed to the decoder': tn, 'neighbourhoods of its observations': [op[0] for op in plan[tn]], 'switches': dict(switches)})
                break
            calls = [c_ for h in hmms for c_ in h.calls]
            for tname in ('T1', 'T2'):
                mine = [c_ for c_ in calls if c_[0] is trs[tname]]
                opts = plan[tname]
                tr = trs[tname]
                if len(mine) != 1 or mine[0][2] is None:
                    bad = ('estimate', 'each track is decoded once, by a decoder that was given a state function', {'track': tname, 'decoder runs on it': len(mine)})
                    break
                trk, mode, lists = mine[0]
                if mode != mode_want:
                    bad = ('estimate', 'the decoder runs with observations taken as 2D positions', {'mode passed': mode, 'MODE_OBS_AS_2D_POSITIONS': mode_want})
                    break
                for k, op in enumerate(opts):
                    q = where[(tname, k)]
                    must, may = [], []
                    for e in (op[1] or ()):
                        d_, px, py, ds, dt = oracle(e, q)
                        cand = (px, py, e, ds, dt)
                        if d_ < radius - 1e-6:
                            must.append(cand)
                        elif d_ <= radius + 1e-6:
                            may.append(cand)
                    got = lists[k]
                    case = {'track': tname, 'observation': k, 'position': list(q), 'neighbourhood': op[0], 'search radius': radius}
                    if switches:
                        case['switches'] = dict(switches)

                    def plain(c_):
                        if not (isinstance(c_, (tuple, list)) and len(c_) == 4 and isinstance(c_[0], orders.Obj) and 'E' in c_[0].fields):
                            return repr(c_)[:120]
                        return (c_[0].fields['E'], c_[0].fields['N'], c_[1], c_[2], c_[3])

                    def same(a_, b_):
                        return isinstance(a_, tuple) and a_[2] == b_[2] and type(a_[2]) is type(b_[2]) and \
                            all(isinstance(x_, (int, float)) and not isinstance(x_, bool) and abs(x_ - y_) <= 1e-6 for x_, y_ in zip((a_[0], a_[1], a_[3], a_[4]), (b_[0], b_[1], b_[3], b_[4])))
                    gp_ = [plain(c_) for c_ in got]
                    sentinel = (q[0], q[1], -1, -1, -1)
                    case['candidates the decoder sees (easting, northing, edge, to source, to target)'] = [list(c_) if isinstance(c_, tuple) else c_ for c_ in gp_]
                    extra = [c_ for c_ in gp_ if not same(c_, sentinel) and not any(same(c_, w_) for w_ in must + may)]
                    missing = [w_ for w_ in must if not any(same(c_, w_) for c_ in gp_)]
                    kept = [w_ for w_ in must + may if any(same(c_, w_) for c_ in gp_)]
                    has_sentinel = any(same(c_, sentinel) for c_ in gp_)
                    if extra or missing or len(gp_) != len(kept) + (1 if has_sentinel else 0):
                        bad = ('radius', 'the candidates of observation k are exactly: for every neighbouring edge whose projection distance is below the search radius, '
                               '(foot of the perpendicular of position k on that edge, the edge, its abscissa from the source node, from the target node)',
                               dict(case, **{'expected': [list(w_) for w_ in must], 'kept although not such a candidate': [list(c_) if isinstance(c_, tuple) else c_ for c_ in extra],
                                             'missing': [list(w_) for w_ in missing]}))
                        break
                    if not kept and not (len(gp_) == 1 and has_sentinel):
                        bad = ('sentinel', 'an observation without candidate receives the unmatched sentinel (its own position, -1, -1, -1) and nothing else', case)
                        break
                    if kept and has_sentinel:
                        bad = ('sentinel', 'a matched observation is not flagged unmatched', case)
                        break
                    if not kept and got[0][0] is not tr.call('getObs', k).fields['position'] and got[0][0].fields.get('U') != 3.0:
                        bad = ('sentinel', 'the unmatched sentinel carries the position of the observation', case)
                        break
                if bad is not None:
                    break
    except orders.Unsupported as ex:
        raise shape_error('mapOnNetwork not interpretable: %s' % ex, f.loc())
    except _Bad as ex:
        bad = ('provenance', ex.desc, ex.wit)
    except orders.PROGRAM_ERRORS as ex:
        bad = ('fails', 'mapOnNetwork does not fail while building the candidates', {'exception': '%s: %s' % (type(ex).__name__, str(ex)[:200])})
    if bad is not None:
        ctx.violation('C10.E', f, bad[1], bad[2], node=f.node, key=bad[0])
    else:
        ctx.ok('C10.E', f, 'on concrete geometry the decoder sees for observation k exactly the candidates (foot on the edge, edge, abscissa from source, from target) of the '
                           'neighbouring edges nearer than the radius, or the unmatched sentinel: %d interpreted matchings of two tracks' % n_cases, node=f.node)
    ctx.extra['C10.E cases'] = n_cases


def rule_N(ctx):
    """C10.N distances to the two end nodes"""
    f = _private(ctx, MAP, '__distToNode')
    tr, coord, i, end = f.params[:4]
    w = Walker(f, loop_mode='skip')
    outs = [o for o in w.run(body_nodocstring(f), State()) if o.kind == 'return']
    got = {}
    for o in outs:
        for c, _ in o.state.conds:
            if c.kind == 'cmp' and c.op == '==' and isinstance(c.b, Rat) and c.b.isconst() and vr(c.a) == end:
                got[int(c.b.constval())] = o
            if c.kind == 'cmp' and c.op == '==' and isinstance(c.a, Rat) and c.a.isconst() and vr(c.b) == end:
                got[int(c.a.constval())] = o
    if 0 not in got or 1 not in got:
        raise shape_error('__distToNode: branches end == 0 / end == 1 not found', f.loc())
    S = lambda k: Rat.atom("%s[('abs_curv', %s)]" % (tr, k)) if False else None
    def s_atom(idx):
        return Rat.atom("%s['abs_curv', %s]" % (tr, idx))
    i_ = Rat.atom(i)
    i1 = repr(i_ + Rat.const(1))
    e0 = s_atom(i) + Rat.atom('%s[%s].position.distance2DTo(%s)' % (tr, i, coord))
    v0 = got[0].value
    ctx.check(isinstance(v0, Rat) and w.rel.is_zero(v0 - e0), 'C10.N', f,
              'distance to the source node = abscissa of vertex i + planimetric distance from vertex i to the point',
              witness={'returned': repr(v0), 'expected': repr(e0)}, node=got[0].node, key='end0')
    last = Rat.atom("%s['abs_curv', %s]" % (tr, repr(Rat.atom('len(%s)' % tr) - Rat.const(1))))
    e1 = last - s_atom(i1) + Rat.atom('%s[%s].position.distance2DTo(%s)' % (tr, i1, coord))
    v1 = got[1].value
    ctx.check(isinstance(v1, Rat) and w.rel.is_zero(v1 - e1), 'C10.N', f,
              'distance to the target node = total abscissa - abscissa of vertex i+1 + planimetric distance from vertex i+1 to the point',
              witness={'returned': repr(v1), 'expected': repr(e1),
                       'why': 'the two distances must add up to the edge length when the point lies on segment i'},
              node=got[1].node, key='end1')


def rule_W(ctx):
    """C10.W arguments reach the formals of the same name (swapped-argument rule over the call tree)"""
    inner = _private(ctx, MAP, '__mapOnNetwork')
    outer = ctx.prog.func(MAP + '.mapOnNetwork')
    calls = [n for n in ast.walk(outer.node) if isinstance(n, ast.Call) and getattr(n.func, 'id', None) == inner.name]
    if len(calls) != 1:
        raise shape_error('mapOnNetwork does not call __mapOnNetwork once', outer.loc())
    c = calls[0]
    formals = inner.params
    bad = []
    bound = {}
    for k, a in enumerate(c.args):
        if k < len(formals):
            bound[formals[k]] = a
    for kw in c.keywords:
        bound[kw.arg] = kw.value
    for fname, a in bound.items():
        if isinstance(a, ast.Name) and a.id in formals and a.id != fname:
            bad.append({'actual': a.id, 'lands in formal': fname})
    # documented renaming: gps_noise -> obs_noise
    ren = {'obs_noise': 'gps_noise'}
    for fname, src in ren.items():
        a = bound.get(fname)
        if not (isinstance(a, ast.Name) and a.id == src):
            bad.append({'formal': fname, 'receives': unparse(a) if a is not None else None, 'expected': src})
    for fname in ('search_radius', 'transition_cost', 'network'):
        a = bound.get(fname)
        if not (isinstance(a, ast.Name) and a.id == fname):
            bad.append({'formal': fname, 'receives': unparse(a) if a is not None else None})
    ctx.check(not bad, 'C10.W', outer, 'mapOnNetwork passes network, noise, transition cost and search radius to the formals that mean them',
              witness={'mismatches': bad, 'call': unparse(c)}, node=c, key='args')


def rule_F(ctx):
    """C10.F the call tree leaves positions, timestamps and the observation list of the track alone"""
    eff = Effects(ctx.prog)
    root = MAP + '.mapOnNetwork'
    ctx.prog.func(root)
    dyn = ctx.prog.module(DYN)
    mode_c = dyn.consts.get('MODE_OBS_AS_2D_POSITIONS')
    if not isinstance(mode_c, ast.Constant):
        raise anchor_error('MODE_OBS_AS_2D_POSITIONS not found', DYN)
    n_sites = 0
    for loc in ('POS', 'TIME', 'OBSLIST'):
        sites = eff.sites(root, loc)
        for fi, node, chain in sites:
            n_sites += 1
            # sanctioned: a store under `mode in [..]` with the map-matching mode constant outside the list
            pm = {}
            for n in ast.walk(fi.node):
                for ch in ast.iter_child_nodes(n):
                    pm[ch] = n
            p = pm.get(node)
            guard = None
            while p is not None:
                if isinstance(p, ast.If) and isinstance(p.test, ast.Compare) and isinstance(p.test.ops[0], ast.In) and \
                        isinstance(p.test.left, ast.Name) and p.test.left.id == 'mode' and \
                        any(x is node for b in p.body for x in ast.walk(b)):
                    guard = p.test
                p = pm.get(p)
            ok = False
            if guard is not None:
                try:
                    lst = ast.literal_eval(guard.comparators[0])
                    ok = mode_c.value not in lst
                except Exception:
                    ok = False
            ctx.check(ok, 'C10.F', ctx.prog.func(root),
                      'map-matching writes no %s of the track (a store is tolerated only under a mode set that excludes '
                      'MODE_OBS_AS_2D_POSITIONS = %r)' % ({'POS': 'position', 'TIME': 'timestamp', 'OBSLIST': 'observation list'}[loc], mode_c.value),
                      witness={'write': '%s: %s' % (fi.loc(node), unparse(node)[:80]), 'guard': unparse(guard) if guard is not None else None,
                               'call chain': chain}, node=node, key='write:%s:%s' % (loc, unparse(node)[:60]))
    ctx.ok('C10.F', ctx.prog.func(root), 'write-effect summary of mapOnNetwork computed over the resolved call tree: %s; %d POS/TIME/OBSLIST sites examined'
           % (sorted(eff.effects_of(root)), n_sites), node=None)
    ctx.extra['effects_mapOnNetwork'] = sorted(eff.effects_of(root))


class _Proxy:
    """run a C20 rule inside C10, keeping only the distance-identity obligations"""

    def __init__(self, ctx):
        self._ctx = ctx

    def __getattr__(self, k):
        return getattr(self._ctx, k)

    def ok(self, rule, *a, **kw):
        if rule == 'C20.D':
            return self._ctx.ok('C10.P', *a, **kw)

    def violation(self, rule, *a, **kw):
        if rule == 'C20.D':
            return self._ctx.violation('C10.P', *a, **kw)

    def check(self, cond, rule, func, desc, witness=None, node=None, key=None):
        if rule == 'C20.D':
            return self._ctx.check(cond, 'C10.P', func, desc, witness=witness, node=node, key=key)


def rule_P(ctx):
    """C10.P the matched point lies on the edge geometry, at the distance compared with the radius: proj_segment interpreted on its case
    domain (projected-coordinate magnitudes included, a foot a few centimetres beyond an end)"""
    from . import c20
    f_, bad_, n_ = c20._proj_segment_cases(ctx)
    ctx.check(not bad_, 'C10.P', f_, 'proj_segment answers the nearest point of the closed segment: the matched point lies on the edge geometry (%d interpreted cases)' % n_,
              witness={'counter-examples': bad_}, node=f_.node, key='on-segment')


def rule_M(ctx):
    """C10.M the projection chain map-matching uses (__projOnTrack -> proj_polyligne -> proj_segment) interpreted on polyline / query
    configurations: the point returned is the nearest of the polyline, its distance the one compared with the radius, its segment the
    one the end-node distances are measured from"""
    from . import c20
    c20.rule_M(ctx, rid='C10.M')
    # ... and the distance returned for a polyline is the one of the projection whose point is returned (proj_polyligne interpreted
    # over every weak ordering of the distances of its segments)
    from ..report import Proxy
    c20.rule_P(Proxy(ctx, {'C20.P': 'C10.M'}))


def rule_Y(ctx):
    """C10.Y the same clauses read symbolically on every return path of proj_segment / proj_polyligne and on the wiring of __projOnTrack
    (all-inputs identities when the code is in the shape the reader follows: weighed against C10.P and C10.M)"""
    from . import c20
    from ..report import Proxy
    c20.rule_D(Proxy(ctx, {'C20.D': 'C10.Y'}))
    # ... and the wrapper used by map-matching projects on the current geometry of the edge
    c20.proj_on_track_rule(ctx, 'C10.Y')


def rule_V(ctx):
    """C10.V the decoder that chooses among the candidates writes its choice on the track it is given - on a first matching and on a
    second matching of the same track (other radius, other network): HMM.estimate interpreted twice on the same decoder and track
    with different tables, and in the position mode map-matching uses"""
    from . import c09
    c09.rule_V(ctx, rid='C10.V', only=('reuse', 'observation modes', 'single epoch'))


def rule_I(ctx):
    """C10.I the two end-node distances, by interpretation: __distToNode on edge geometries (the repository's Track with its abs_curv
    feature), points on and off the geometry, every segment, both ends: distance to the source = S[i] + |vertex i - point|, distance to
    the target = S[last] - S[i+1] + |vertex i+1 - point|; on a segment the two add up to the length of the edge"""
    import math
    from .. import orders
    f = _private(ctx, MAP, '__distToNode')
    fn = absint.funcs(ctx, MAP, {})
    T = absint.classref(ctx, 'tracklib.core.track.Track', fn)
    EN = absint.classref(ctx, 'tracklib.core.obs_coords.ENUCoords', fn)
    fn['sqrt'], fn['hypot'] = math.sqrt, math.hypot
    run = orders.make_func(f.node, fn)
    bad = None
    n = 0
    geoms = {
        'straight edge of two vertices': [(0.0, 0.0), (10.0, 0.0)],
        'edge of four vertices with unequal segments': [(0.0, 0.0), (3.0, 4.0), (3.0, 10.0), (11.0, 10.0)],
        'edge with a repeated vertex': [(2.0, 1.0), (5.0, 5.0), (5.0, 5.0), (5.0, -7.0)],
    }
    try:
        for gname, pts in geoms.items():
            S = [0.0]
            for a_, b_ in zip(pts, pts[1:]):
                S.append(S[-1] + math.hypot(b_[0] - a_[0], b_[1] - a_[1]))
            # (the vertices carry altitudes - network geometries read from 'x y z' text do; the candidate point is at altitude 0: distances are planimetric)
            g = T([absint.real_obs(ctx, fn, EN(x_, y_, 35.0 + 4.0 * k_)) for k_, (x_, y_) in enumerate(pts)], 'u', 't')
            g.call('createAnalyticalFeature', 'abs_curv', list(S))
            for i in range(len(pts) - 1):
                (x1, y1), (x2, y2) = pts[i], pts[i + 1]
                for t_, off in ((0.0, 0.0), (0.25, 0.0), (1.0, 0.0), (0.5, 2.0), (0.75, -1.5)):
                    L = math.hypot(x2 - x1, y2 - y1)
                    ux, uy = ((x2 - x1) / L, (y2 - y1) / L) if L else (1.0, 0.0)
                    q = (x1 + t_ * (x2 - x1) - off * uy, y1 + t_ * (y2 - y1) + off * ux)
                    want = {0: S[i] + math.hypot(q[0] - x1, q[1] - y1), 1: S[-1] - S[i + 1] + math.hypot(q[0] - x2, q[1] - y2)}
                    for end in (0, 1):
                        n += 1
                        got = run(g, EN(q[0], q[1], 0.0), i, end)
                        if not isinstance(got, (int, float)) or isinstance(got, bool) or abs(got - want[end]) > 1e-9 * max(1.0, want[end]):
                            bad = bad or {'edge geometry': gname, 'vertices': [list(p_) for p_ in pts], 'point': list(q), 'segment': i,
                                          'end': 'source (0)' if end == 0 else 'target (1)', 'returned': got if isinstance(got, (int, float)) else repr(got), 'expected': want[end]}
                    if off == 0.0 and bad is None:
                        a0, a1 = run(g, EN(q[0], q[1], 0.0), i, 0), run(g, EN(q[0], q[1], 0.0), i, 1)
                        if abs(a0 + a1 - S[-1]) > 1e-9 * max(1.0, S[-1]):
                            bad = {'edge geometry': gname, 'point on segment': i, 'distance to source + distance to target': a0 + a1, 'length of the edge': S[-1]}
            # the default end is the source
            n += 1
            got = run(g, EN(pts[0][0], pts[0][1], 0.0), 0)
            if not isinstance(got, (int, float)) or abs(got) > 1e-12:
                bad = bad or {'edge geometry': gname, 'call': '__distToNode(geometry, first vertex, 0)', 'returned': repr(got), 'expected': 0.0}
    except orders.Unsupported as ex:
        raise shape_error('__distToNode not interpretable: %s' % ex, f.loc())
    except orders.PROGRAM_ERRORS as ex:
        bad = bad or {'exception': '%s: %s' % (type(ex).__name__, str(ex)[:200])}
    ctx.check(bad is None, 'C10.I', f, 'the distances from a candidate to the two end nodes of its edge pair abscissa S[i] with vertex i and S[i+1] with vertex i+1 '
              '(%d interpreted cases)' % n, witness=bad, node=f.node, key='end-distances')


def rule_A(ctx):
    """C10.A mapOnNetwork interpreted with a recording stand-in for __mapOnNetwork: each track of the collection (or the single track)
    is matched once, on the network given, with the noise, transition cost and search radius given - positionally or by keyword"""
    from .. import orders
    inner = _private(ctx, MAP, '__mapOnNetwork')
    outer = ctx.prog.func(MAP + '.mapOnNetwork')
    seen = []

    def recorder(*args, **kwargs):
        env = {}
        orders._bind_params(inner.node, [a.arg for a in inner.node.args.args], args, kwargs, env, fn, inner.name)
        seen.append(env)
        return None
    fn = absint.funcs(ctx, MAP, {inner.name: recorder})
    fn[inner.name] = recorder
    T = absint.classref(ctx, 'tracklib.core.track.Track', fn)
    TC = absint.classref(ctx, 'tracklib.core.track_collection.TrackCollection', fn)
    run = orders.make_func(outer.node, fn)

    class Net(orders.PyStub):
        isa = ('Network',)
    bad = None
    n = 0
    formals = [a.arg for a in outer.node.args.args]
    if formals[:2] != ['tracks', 'network'] or not {'gps_noise', 'transition_cost', 'search_radius'} <= set(formals):
        raise shape_error('mapOnNetwork: parameters not understood', outer.loc())
    try:
        for form in ('single track, keywords', 'collection of two tracks, keywords', 'single track, positional', 'collection, defaults'):
            del seen[:]
            net = Net()
            tracks = [T([], 'u', 't%d' % k) for k in range(2)]
            arg = tracks[0] if form.startswith('single') else TC(list(tracks))
            want_tracks = tracks[:1] if form.startswith('single') else tracks
            n += 1
            if form.endswith('keywords'):
                run(arg, net, gps_noise=11.0, transition_cost=22.0, search_radius=33.0)
                want = {'obs_noise': 11.0, 'transition_cost': 22.0, 'search_radius': 33.0}
            elif form.endswith('positional'):
                pos = {'gps_noise': 11.0, 'transition_cost': 22.0, 'search_radius': 33.0}
                extra = []
                for p_ in formals[2:]:
                    if p_ not in pos:
                        break
                    extra.append(pos[p_])
                if len(extra) != 3:
                    continue
                run(arg, net, *extra)
                want = {'obs_noise': 11.0, 'transition_cost': 22.0, 'search_radius': 33.0}
            else:
                run(arg, net)
                dflt = dict(zip(formals[len(formals) - len(outer.node.args.defaults):], [ast.literal_eval(d_) for d_ in outer.node.args.defaults]))
                want = {'obs_noise': dflt.get('gps_noise'), 'transition_cost': dflt.get('transition_cost'), 'search_radius': dflt.get('search_radius')}
            got_tracks = [e_.get('track') for e_ in seen]
            ok = len(seen) == len(want_tracks) and all(a_ is b_ for a_, b_ in zip(got_tracks, want_tracks)) and all(e_.get('network') is net for e_ in seen) and \
                all(e_.get(k_) == v_ and type(e_.get(k_)) is type(v_) for e_ in seen for k_, v_ in want.items())
            if not ok and bad is None:
                bad = {'call': form, 'matching runs': len(seen), 'tracks expected': len(want_tracks),
                       'received by __mapOnNetwork': [{k_: (v_ if isinstance(v_, (int, float, str, bool, type(None))) else type(v_).__name__) for k_, v_ in e_.items() if not k_.startswith('__')} for e_ in seen][:2],
                       'expected': dict(want, network='the network given', track='each track given, once, in order')}
    except orders.Unsupported as ex:
        raise shape_error('mapOnNetwork not interpretable: %s' % ex, outer.loc())
    except orders.PROGRAM_ERRORS as ex:
        bad = bad or {'exception': '%s: %s' % (type(ex).__name__, str(ex)[:200])}
    ctx.check(bad is None, 'C10.A', outer, 'mapOnNetwork matches each track given once, on the network given, with the noise, transition cost and search radius given '
              '(%d interpreted call forms)' % n, witness=bad, node=outer.node, key='arguments')



RULES = [
    ('C10.V', rule_V, 'quick'),
    ('C10.P', rule_P, 'quick'),
    ('C10.M', rule_M, 'quick'),
    ('C10.Y', weighed('C10.Y', rule_Y, ('C10.P', 'C10.M')), 'quick'),
    ('C10.E', rule_E, 'quick'),
    ('C10.D', weighed('C10.D', rule_D, ('C10.E',)), 'quick'),
    ('C10.I', rule_I, 'quick'),
    ('C10.A', rule_A, 'quick'),
    ('C10.N', weighed('C10.N', rule_N, ('C10.I',)), 'quick'),
    ('C10.W', weighed('C10.W', rule_W, ('C10.A',)), 'quick'),
    ('C10.F', rule_F, 'quick'),
]
MIN_OBLIGATIONS = 10
