"""C10 - map-matched positions (tracklib/algo/mapping.py, dynamics.py)."""
import ast

from ..alg import Rat
from ..loader import shape_error, anchor_error
from ..sx import Walker, State
from ..effects import Effects
from ..util import body_nodocstring, names_stored, unparse

MAP = 'tracklib.algo.mapping'
DYN = 'tracklib.algo.dynamics'

EXPLANATION = (
    "Static analysis of mapOnNetwork / __mapOnNetwork / __distToNode and of the write effects of the whole "
    "map-matching call tree: every candidate kept is dominated by the radius test on the distance returned by the "
    "projection of THIS observation on the geometry of THIS edge, and carries end-node distances computed from the "
    "same (geometry, point, segment); empty candidate lists get the unmatched sentinel; the two end-node distances "
    "pair abscissa S[i] with vertex i and S[i+1] with vertex i+1; arguments reach the formals of the same name; the "
    "call tree writes no position, timestamp or observation list of the track except one store guarded by a mode "
    "set that excludes the mode constant map-matching passes.")
ASSUMPTIONS = ["callees are resolved by name with receiver typing from constructors/annotations (DESIGN section 2, effects)"]
TECHNIQUE = "guard dominance and provenance on loop-body paths (F6), index pairing (F3), interprocedural write-effect summaries (F1)"


def vr(v):
    if isinstance(v, Rat):
        a = v.single_atom()
        return a if a is not None else repr(v)
    return repr(v)


def _private(ctx, mod, suffix):
    for q, fi in ctx.prog.functions.items():
        if q.startswith(mod + '.') and fi.name.endswith(suffix) and fi.cls is None:
            return fi
    raise anchor_error('%s.*%s not found' % (mod, suffix), mod)


def rule_D(ctx):
    """C10.D / C10.S candidates"""
    f = _private(ctx, MAP, '__mapOnNetwork')
    body = body_nodocstring(f)
    track, network = f.params[:2]
    radius = f.params[4]
    loops = [s for s in body if isinstance(s, ast.For) and any(
        isinstance(n, ast.Call) and getattr(n.func, 'attr', None) == 'neighborhood' for n in ast.walk(s))]
    if len(loops) != 1:
        raise shape_error('__mapOnNetwork: observation loop not found', f.loc())
    lo = loops[0]
    iv = lo.target.id
    from .c18 import _resolve_range
    w = Walker(f, loop_mode='once', solve_eq=False)
    r = _resolve_range(f, lo.iter)
    ri = w.range_info(r, State()) if r is not None else None
    ctx.check(ri is not None and w.rel.is_zero(ri[0]) and vr(ri[1]) in ('len(%s)' % track, '%s.size()' % track), 'C10.D', f,
              'every observation of the track gets a candidate list', witness={'range': unparse(r) if r else unparse(lo.iter)},
              node=lo, key='range')
    st = State({iv: Rat.atom(iv), f.params[5]: Rat.const(0), f.params[6]: Rat.const(0)})
    outs = list(w.run(lo.body, st))
    apps = []
    seen = set()
    for o in outs:
        for e in o.state.events:
            if e.kind == 'call' and e.name == 'append' and isinstance(e.recv, Rat) and \
                    (e.recv.single_atom() or '').endswith('[-1]') and id(e.node) not in seen:
                apps.append(e)
                seen.add(id(e.node))
    cands = [e for e in apps if isinstance(e.args[0], tuple) and len(e.args[0]) == 4 and
             not all(isinstance(x, Rat) and x.isconst() for x in e.args[0][1:])]
    sents = [e for e in apps if isinstance(e.args[0], tuple) and len(e.args[0]) == 4 and
             all(isinstance(x, Rat) and x.isconst() and x.constval() < 0 for x in e.args[0][1:])]
    if not cands:
        raise shape_error('__mapOnNetwork: candidate append not found', f.loc(lo))
    for e in cands:
        p, elem, d0, d1 = e.args[0]
        conds = [cj for c, _ in e.conds for cj in c.conjuncts()]
        # the projection call this tuple comes from
        ptxt = vr(p)
        import re
        m = re.match(r'^(.*projOnTrack\((.*)\))\[0\]$', ptxt)
        if not m:
            ctx.violation('C10.D', f, 'the matched point kept is the point returned by the projection', {'point': ptxt}, node=e.node, key='point')
            continue
        call, args = m.group(1), m.group(2)
        eg = '%s.EDGES[%s.getEdgeId(%s)].geom' % (network, network, vr(elem))
        okargs = args == '%s[%s].position, %s' % (track, iv, eg)
        ctx.check(okargs, 'C10.D', f,
                  'the projection is that of the CURRENT observation on the geometry of the edge stored in the candidate',
                  witness={'projection arguments': args, 'expected': '%s[%s].position, %s' % (track, iv, eg)}, node=e.node, key='proj-args')
        g = [c for c in conds if c.kind == 'cmp' and c.op in ('<', '<=') and vr(c.a) == call + '[1]' and vr(c.b) == radius]
        ctx.check(bool(g), 'C10.D', f,
                  'a candidate is kept only if the distance returned by that same projection is below the search radius',
                  witness={'guards': [repr(c) for c in conds], 'distance expected in the guard': call + '[1]', 'radius': radius},
                  node=e.node, key='radius')
        exp0 = '__distToNode(%s, %s, %s, 0)' % (eg, call + '[0]', call + '[2]')
        exp1 = '__distToNode(%s, %s, %s, 1)' % (eg, call + '[0]', call + '[2]')
        ctx.check(vr(d0).endswith(exp0) and vr(d1).endswith(exp1), 'C10.D', f,
                  'the distances to the two end nodes are computed from the same geometry, point and segment index (ends 0 then 1)',
                  witness={'third': vr(d0), 'fourth': vr(d1)}, node=e.node, key='enddist')
    # the table indexed by the observation number is emptied for every track: __states(track, k) returns TABLE[k]
    tabs = {(e.recv.single_atom() or '')[:-len('[-1]')] for e in cands}
    if len(tabs) != 1:
        raise shape_error('__mapOnNetwork: candidate table not identified (%s)' % sorted(tabs), f.loc(lo))
    tab = tabs.pop()
    w3 = Walker(f, loop_mode='skip')
    pre3 = w3.state_before(body, lo)
    t0 = pre3.env.get(tab) if pre3 is not None else None
    ctx.check(isinstance(t0, list) and len(t0) == 0, 'C10.D', f,
              'the candidate table is emptied at the start of every track: entry k is the candidate list of observation k of THIS track',
              witness={'table': tab, 'value before the observation loop': vr(t0) if t0 is not None else 'whatever the previous track left in it',
                       'why': 'with several tracks in one call, observation k of a later track is decoded with the candidates of observation k of the first track'},
              node=lo, key='table-reset')
    # sentinel for empty lists
    ok = False
    for e in sents:
        conds = [repr(cj) for c, _ in e.conds for cj in c.conjuncts()]
        if any('len(' in c and '== 0' in c.replace('0 ==', '== 0') or 'len(' in c for c in conds) and \
                vr(e.args[0][0]) == '%s[%s].position' % (track, iv):
            ok = True
    ctx.check(ok, 'C10.S', f, 'an observation without candidate receives the unmatched sentinel (its own position, -1, -1, -1)',
              witness={'sentinel appends': [repr(e) for e in sents]}, node=lo, key='sentinel')
    # the HMM is run on this track with the observation mode constant
    w2 = Walker(f, loop_mode='skip')
    o2 = [o for o in w2.run(body, State({f.params[5]: Rat.const(0), f.params[6]: Rat.const(0)})) if o.kind == 'fall']
    est = [e for o in o2 for e in o.state.events if e.kind == 'call' and e.name == 'estimate']
    ctx.check(bool(est) and vr(est[0].args[0]) == track and vr(est[0].kwargs.get('mode')) == 'MODE_OBS_AS_2D_POSITIONS', 'C10.D', f,
              'the decoder runs on the same track with observations taken as 2D positions',
              witness={'call': unparse(est[0].node) if est else None}, node=f.node, key='estimate')


def rule_N(ctx):
    """C10.N distances to the two end nodes"""
    f = _private(ctx, MAP, '__distToNode')
    tr, coord, i, end = f.params[:4]
    w = Walker(f, loop_mode='skip')
    outs = [o for o in w.run(body_nodocstring(f), State()) if o.kind == 'return']
    got = {}
    for o in outs:
        for c, _ in o.state.conds:
            if c.kind == 'cmp' and c.op == '==' and isinstance(c.b, Rat) and c.b.isconst() and vr(c.a) == end:
                got[int(c.b.constval())] = o
            if c.kind == 'cmp' and c.op == '==' and isinstance(c.a, Rat) and c.a.isconst() and vr(c.b) == end:
                got[int(c.a.constval())] = o
    if 0 not in got or 1 not in got:
        raise shape_error('__distToNode: branches end == 0 / end == 1 not found', f.loc())
    S = lambda k: Rat.atom("%s[('abs_curv', %s)]" % (tr, k)) if False else None
    def s_atom(idx):
        return Rat.atom("%s['abs_curv', %s]" % (tr, idx))
    i_ = Rat.atom(i)
    i1 = repr(i_ + Rat.const(1))
    e0 = s_atom(i) + Rat.atom('%s[%s].position.distance2DTo(%s)' % (tr, i, coord))
    v0 = got[0].value
    ctx.check(isinstance(v0, Rat) and w.rel.is_zero(v0 - e0), 'C10.N', f,
              'distance to the source node = abscissa of vertex i + planimetric distance from vertex i to the point',
              witness={'returned': repr(v0), 'expected': repr(e0)}, node=got[0].node, key='end0')
    last = Rat.atom("%s['abs_curv', %s]" % (tr, repr(Rat.atom('len(%s)' % tr) - Rat.const(1))))
    e1 = last - s_atom(i1) + Rat.atom('%s[%s].position.distance2DTo(%s)' % (tr, i1, coord))
    v1 = got[1].value
    ctx.check(isinstance(v1, Rat) and w.rel.is_zero(v1 - e1), 'C10.N', f,
              'distance to the target node = total abscissa - abscissa of vertex i+1 + planimetric distance from vertex i+1 to the point',
              witness={'returned': repr(v1), 'expected': repr(e1),
                       'why': 'the two distances must add up to the edge length when the point lies on segment i'},
              node=got[1].node, key='end1')


def rule_W(ctx):
    """C10.W arguments reach the formals of the same name (swapped-argument rule over the call tree)"""
    inner = _private(ctx, MAP, '__mapOnNetwork')
    outer = ctx.prog.func(MAP + '.mapOnNetwork')
    calls = [n for n in ast.walk(outer.node) if isinstance(n, ast.Call) and getattr(n.func, 'id', None) == inner.name]
    if len(calls) != 1:
        raise shape_error('mapOnNetwork does not call __mapOnNetwork once', outer.loc())
    c = calls[0]
    formals = inner.params
    bad = []
    bound = {}
    for k, a in enumerate(c.args):
        if k < len(formals):
            bound[formals[k]] = a
    for kw in c.keywords:
        bound[kw.arg] = kw.value
    for fname, a in bound.items():
        if isinstance(a, ast.Name) and a.id in formals and a.id != fname:
            bad.append({'actual': a.id, 'lands in formal': fname})
    # documented renaming: gps_noise -> obs_noise
    ren = {'obs_noise': 'gps_noise'}
    for fname, src in ren.items():
        a = bound.get(fname)
        if not (isinstance(a, ast.Name) and a.id == src):
            bad.append({'formal': fname, 'receives': unparse(a) if a is not None else None, 'expected': src})
    for fname in ('search_radius', 'transition_cost', 'network'):
        a = bound.get(fname)
        if not (isinstance(a, ast.Name) and a.id == fname):
            bad.append({'formal': fname, 'receives': unparse(a) if a is not None else None})
    ctx.check(not bad, 'C10.W', outer, 'mapOnNetwork passes network, noise, transition cost and search radius to the formals that mean them',
              witness={'mismatches': bad, 'call': unparse(c)}, node=c, key='args')


def rule_F(ctx):
    """C10.F the call tree leaves positions, timestamps and the observation list of the track alone"""
    eff = Effects(ctx.prog)
    root = MAP + '.mapOnNetwork'
    ctx.prog.func(root)
    dyn = ctx.prog.module(DYN)
    mode_c = dyn.consts.get('MODE_OBS_AS_2D_POSITIONS')
    if not isinstance(mode_c, ast.Constant):
        raise anchor_error('MODE_OBS_AS_2D_POSITIONS not found', DYN)
    n_sites = 0
    for loc in ('POS', 'TIME', 'OBSLIST'):
        sites = eff.sites(root, loc)
        for fi, node, chain in sites:
            n_sites += 1
            # sanctioned: a store under `mode in [..]` with the map-matching mode constant outside the list
            pm = {}
            for n in ast.walk(fi.node):
                for ch in ast.iter_child_nodes(n):
                    pm[ch] = n
            p = pm.get(node)
            guard = None
            while p is not None:
                if isinstance(p, ast.If) and isinstance(p.test, ast.Compare) and isinstance(p.test.ops[0], ast.In) and \
                        isinstance(p.test.left, ast.Name) and p.test.left.id == 'mode' and \
                        any(x is node for b in p.body for x in ast.walk(b)):
                    guard = p.test
                p = pm.get(p)
            ok = False
            if guard is not None:
                try:
                    lst = ast.literal_eval(guard.comparators[0])
                    ok = mode_c.value not in lst
                except Exception:
                    ok = False
            ctx.check(ok, 'C10.F', ctx.prog.func(root),
                      'map-matching writes no %s of the track (a store is tolerated only under a mode set that excludes '
                      'MODE_OBS_AS_2D_POSITIONS = %r)' % ({'POS': 'position', 'TIME': 'timestamp', 'OBSLIST': 'observation list'}[loc], mode_c.value),
                      witness={'write': '%s: %s' % (fi.loc(node), unparse(node)[:80]), 'guard': unparse(guard) if guard is not None else None,
                               'call chain': chain}, node=node, key='write:%s:%s' % (loc, unparse(node)[:60]))
    ctx.ok('C10.F', ctx.prog.func(root), 'write-effect summary of mapOnNetwork computed over the resolved call tree: %s; %d POS/TIME/OBSLIST sites examined'
           % (sorted(eff.effects_of(root)), n_sites), node=None)
    ctx.extra['effects_mapOnNetwork'] = sorted(eff.effects_of(root))


class _Proxy:
    """run a C20 rule inside C10, keeping only the distance-identity obligations"""

    def __init__(self, ctx):
        self._ctx = ctx

    def __getattr__(self, k):
        return getattr(self._ctx, k)

    def ok(self, rule, *a, **kw):
        if rule == 'C20.D':
            return self._ctx.ok('C10.P', *a, **kw)

    def violation(self, rule, *a, **kw):
        if rule == 'C20.D':
            return self._ctx.violation('C10.P', *a, **kw)

    def check(self, cond, rule, func, desc, witness=None, node=None, key=None):
        if rule == 'C20.D':
            return self._ctx.check(cond, 'C10.P', func, desc, witness=witness, node=node, key=key)


def rule_P(ctx):
    """C10.P the distance compared with the radius is the distance to the point returned (proj_segment, every return)"""
    from . import c20
    from ..report import Proxy
    c20.rule_D(_Proxy(ctx))
    # ... and the distance returned for a polyline is the one of the projection whose point is returned
    c20.rule_P(Proxy(ctx, {'C20.P': 'C10.P'}))


RULES = [
    ('C10.P', rule_P, 'quick'),
    ('C10.D', rule_D, 'quick'),
    ('C10.N', rule_N, 'quick'),
    ('C10.W', rule_W, 'quick'),
    ('C10.F', rule_F, 'quick'),
]
MIN_OBLIGATIONS = 10
