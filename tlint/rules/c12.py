"""C12 - optimal partitioning (tracklib/algo/segmentation.py, simplification.py)."""
import ast
import itertools

from ..alg import Rat
from ..loader import shape_error, anchor_error
from ..sx import Walker, State
from .. import orders
from ..orders import Table
from ..util import body_nodocstring, names_stored, unparse

SEG = 'tracklib.algo.segmentation'
SIM = 'tracklib.algo.simplification'

EXPLANATION = (
    "Static analysis of optimalPartition / backtracking / backward / optimalSegmentation and their callers: the "
    "cell update is interpreted for both direction constants on the three orderings of (candidate, current) -- the "
    "mode parameter must select min or max and value/split are co-updated; loop ranges of the interval DP; the "
    "split-table expansion is interpreted on all 288 consistent split tables for n<=5; callers forward the "
    "direction they document and the optional global parameter under an identity test.")
ASSUMPTIONS = ["the cost matrix is read only through D (checked: initialisation copies the upper triangle)"]
TECHNIQUE = "finite ordering/constant domains interpreted over the AST (F4), affine loop ranges (F3), parameter liveness (F7)"


def vr(v):
    if isinstance(v, Rat):
        a = v.single_atom()
        return a if a is not None else repr(v)
    return repr(v)


def _consts(ctx):
    m = ctx.prog.module(SEG)
    out = {}
    for k in ('MODE_SEGMENTATION_MINIMIZE', 'MODE_SEGMENTATION_MAXIMIZE'):
        v = m.consts.get(k)
        if not isinstance(v, ast.Constant):
            raise anchor_error('module constant %s not found' % k, SEG)
        out[k] = v.value
    if out['MODE_SEGMENTATION_MINIMIZE'] == out['MODE_SEGMENTATION_MAXIMIZE']:
        raise shape_error('the two direction constants are equal')
    return out


def _dp_loops(f):
    body = body_nodocstring(f)
    for s in body:
        if isinstance(s, ast.For):
            l2 = [x for x in s.body if isinstance(x, ast.For)]
            if len(l2) == 1:
                l3 = [x for x in l2[0].body if isinstance(x, ast.For)]
                if len(l3) == 1:
                    return s, l2[0], l3[0]
    raise shape_error('optimalPartition: triple DP loop not found', f.loc())


def rule_D(ctx):
    """C12.D the direction argument selects min or max; value and split point co-updated"""
    f = ctx.prog.func(SEG + '.optimalPartition')
    consts = _consts(ctx)
    ldiag, li, lk = _dp_loops(f)
    mode_param = f.params[1]
    dv, iv, kv = ldiag.target.id, li.target.id, lk.target.id
    reads = {x.value.id for x in ast.walk(lk) if isinstance(x, ast.Subscript) and isinstance(x.ctx, ast.Load)
             and isinstance(x.value, ast.Name) and isinstance(x.slice, ast.Tuple)}
    stores = {x.value.id for x in ast.walk(lk) if isinstance(x, ast.Subscript) and isinstance(x.ctx, ast.Store)
              and isinstance(x.value, ast.Name) and isinstance(x.slice, ast.Tuple)}
    val_t = sorted(reads & stores)
    ptr_t = sorted(stores - reads)
    if len(val_t) != 1 or len(ptr_t) != 1:
        raise shape_error('optimalPartition: cannot identify value/split tables', f.loc(lk))
    bad = []
    n = 0
    # interval (1, 4): two split candidates k = 2, 3 examined in sequence (stale-accumulator slips need two)
    for mname, mval in consts.items():
        want_min = mname.endswith('MINIMIZE')
        for o in orders.weak_orderings(['cur', 'v2', 'v3']):
            cur, v2, v3 = 10 + o['cur'], 10 + o['v2'], 10 + o['v3']
            D = Table('D', {(1, 2): 0, (2, 4): v2, (1, 3): 0, (3, 4): v3, (1, 4): cur})
            M = Table('M', {(1, 4): -1})
            env = dict(consts)
            env.update({mode_param: mval, iv: 1, dv: 3, val_t[0]: D, ptr_t[0]: M})
            try:
                orders.run_block(li.body, env)
            except orders.Unsupported as e:
                raise shape_error('optimalPartition cell update not interpretable: %s' % e, f.loc(lk))
            n += 1
            best = min(cur, v2, v3) if want_min else max(cur, v2, v3)
            got_d, got_m = D.read((1, 4)), M.read((1, 4))
            if best == cur:
                ok_m = got_m == -1
            else:
                ok_m = got_m in [k for k, v in ((2, v2), (3, v3)) if v == best]
            if (got_d != best or not ok_m) and len(bad) < 6:
                bad.append({'mode': mname, 'ordering of (current, candidate k=2, candidate k=3)': orders.describe(o),
                            'after both candidates (D[i,j], M[i,j])': [got_d, got_m], 'expected D[i,j]': best,
                            'expected split': 'none' if best == cur else 'a candidate attaining it'})
    ctx.check(not bad, 'C12.D', f,
              'for mode=MINIMIZE the cell keeps the smaller of candidate/current, for MAXIMIZE the larger; the split '
              'point is recorded exactly when the value changes (2 modes x 13 orderings of the current value and two successive candidates)',
              witness={'counter-examples': bad}, node=lk, key='direction')
    ctx.extra['cases_interpreted'] = n


def rule_R(ctx):
    """C12.R recurrence ranges and initialisation"""
    f = ctx.prog.func(SEG + '.optimalPartition')
    body = body_nodocstring(f)
    ldiag, li, lk = _dp_loops(f)
    w = Walker(f, loop_mode='skip')
    pre = [o for o in w.run(body[:body.index(ldiag)], State({f.params[2]: Rat.const(0)})) if o.kind == 'fall']
    if not pre:
        raise shape_error('optimalPartition prologue', f.loc())
    st = pre[0].state
    from .c18 import _resolve_range
    rd = _resolve_range(f, ldiag.iter)
    if rd is None:
        raise shape_error('diag loop is not a range', f.loc(ldiag))
    # size symbol N: the dimension used to allocate D
    dlo, dhi, dstep = w.range_info(rd, st)
    N = dhi
    ctx.check(isinstance(dlo, Rat) and dlo.isconst() and 0 <= dlo.constval() <= 2 and w.rel.is_zero(dstep - Rat.const(1)),
              'C12.R', f, 'diagonals are processed in increasing order starting at 2 (or lower)',
              witness={'range': [repr(dlo), repr(dhi), repr(dstep)]}, node=ldiag, key='diag-lo')
    # N must be the table size
    # the value table and the split table of the DP
    reads = {x.value.id for x in ast.walk(lk) if isinstance(x, ast.Subscript) and isinstance(x.ctx, ast.Load)
             and isinstance(x.value, ast.Name) and isinstance(x.slice, ast.Tuple)}
    stores_ = {x.value.id for x in ast.walk(lk) if isinstance(x, ast.Subscript) and isinstance(x.ctx, ast.Store)
               and isinstance(x.value, ast.Name) and isinstance(x.slice, ast.Tuple)}
    val_t, ptr_t = sorted(reads & stores_), sorted(stores_ - reads)
    if len(val_t) != 1 or len(ptr_t) != 1:
        raise shape_error('optimalPartition: cannot identify value/split tables', f.loc(lk))
    defs = st.env.get('__defs__', {})
    cm = f.params[0]
    ddef = defs.get(val_t[0])
    dval = st.env.get(val_t[0])
    dtext = ddef if ddef is not None else (dval.single_atom() if isinstance(dval, Rat) else repr(dval))
    FRESH = ('np.zeros(', 'np.ones(', 'np.full(', 'np.empty(', 'np.array(', 'np.copy(', 'copy.deepcopy(')
    fresh = dtext is not None and (dtext.startswith(FRESH) or dtext.endswith('.copy()') or '.astype(' in dtext)
    if not fresh and dtext is not None and cm in dtext:
        ctx.violation('C12.R', f, 'the DP works on a private table: it must not write into the caller\'s cost matrix',
                      {'table': val_t[0], 'defined as': dtext,
                       'why': 'this expression can be a view of the argument (asarray/slicing/identity do not copy); '
                              'the updates D[i,j] = ... then overwrite the caller\'s matrix, so a second call on the '
                              'same matrix (e.g. the other direction) optimises garbage'},
                      node=lk, key='alias')
    elif not fresh:
        raise shape_error('optimalPartition: definition of the value table not understood: %s' % dtext, f.loc())
    else:
        ctx.ok('C12.R', f, 'the DP value table is a fresh allocation (%s)' % dtext[:40], node=ldiag)
    if dtext is not None and dtext.startswith('np.zeros('):
        okN = dtext == 'np.zeros((%s, %s))' % (repr(N), repr(N))
        ctx.check(okN, 'C12.R', f, 'the last diagonal processed is size-1 (range end == table size)',
                  witness={'range end': repr(N), 'table': dtext}, node=ldiag, key='diag-hi')
    st2 = st.fork()
    dv, iv, kv = ldiag.target.id, li.target.id, lk.target.id
    st2.env[dv] = Rat.atom(dv)
    ri = w.range_info(li.iter, st2)
    ctx.check(ri is not None and w.rel.is_zero(ri[0]) and w.rel.is_zero(ri[1] - (N - Rat.atom(dv))) and
              w.rel.is_zero(ri[2] - Rat.const(1)), 'C12.R', f,
              'every cell of a diagonal is processed: i in [0, size - diag)',
              witness={'range': [repr(x) for x in ri] if ri else None}, node=li, key='i-range')
    st2.env[iv] = Rat.atom(iv)
    stk = [o for o in w.run([s for s in li.body if s is not lk], st2) if o.kind == 'fall'][0].state
    rk = w.range_info(lk.iter, stk)
    # j: the second index of the cell written
    stores = [x for x in ast.walk(lk) if isinstance(x, ast.Subscript) and isinstance(x.ctx, ast.Store)
              and isinstance(x.slice, ast.Tuple)]
    if not stores:
        raise shape_error('no store in k-loop', f.loc(lk))
    ci = w.ex(stores[0].slice.elts[0], stk)
    cj = w.ex(stores[0].slice.elts[1], stk)
    ctx.check(w.rel.is_zero(ci - Rat.atom(iv)) and w.rel.is_zero(cj - Rat.atom(iv) - Rat.atom(dv)), 'C12.R', f,
              'the cell updated is (i, i + diag)', witness={'cell': [repr(ci), repr(cj)]}, node=lk, key='cell')
    ctx.check(rk is not None and w.rel.is_zero(rk[0] - ci - Rat.const(1)) and w.rel.is_zero(rk[1] - cj) and
              w.rel.is_zero(rk[2] - Rat.const(1)), 'C12.R', f,
              'split candidates are exactly the interior indices k in (i, j)',
              witness={'range': [repr(x) for x in rk] if rk else None, 'cell': [repr(ci), repr(cj)]}, node=lk,
              key='k-range')
    # candidate value = D[i,k] + D[k,j]
    stk.env[kv] = Rat.atom(kv)
    stk.events = []
    outs = list(w.run(lk.body, stk))
    vals = set()
    for o in outs:
        for e in o.state.events:
            if e.kind == 'store' and isinstance(e.value, Rat) and not e.value.isconst() and e.value.single_atom() != kv:
                vals.add(repr(e.value))
    tn = None
    for x in ast.walk(lk):
        if isinstance(x, ast.Subscript) and isinstance(x.ctx, ast.Load) and isinstance(x.slice, ast.Tuple) and isinstance(x.value, ast.Name):
            tn = x.value.id
    tb = w.base_text(stk.env[tn]) if isinstance(stk.env.get(tn), Rat) else tn
    exp = Rat.atom('%s[%s, %s]' % (tb, repr(ci), kv)) + Rat.atom('%s[%s, %s]' % (tb, kv, repr(cj)))
    ctx.check(vals == {repr(exp)}, 'C12.R', f, 'the candidate is D[i,k] + D[k,j]',
              witness={'values stored': sorted(vals), 'expected': repr(exp)}, node=lk, key='candidate')
    # initialisation: D[i,j] = cost[i,j], M[i,j] = -1 on the upper triangle
    inits = [s for s in body[:body.index(ldiag)] if isinstance(s, ast.For) and any(isinstance(x, ast.For) for x in s.body)]
    okI = False
    wit = None
    for l0 in inits:
        l1 = [x for x in l0.body if isinstance(x, ast.For)][0]
        s3 = st.fork()
        s3.events = []
        s3.env[l0.target.id] = Rat.atom(l0.target.id)
        r0 = w.range_info(l0.iter, st)
        r1 = w.range_info(l1.iter, s3)
        s3.env[l1.target.id] = Rat.atom(l1.target.id)
        o3 = [o for o in w.run(l1.body, s3)]
        if len(o3) != 1:
            continue
        evs = [e for e in o3[0].state.events if e.kind == 'store']
        a, b = l0.target.id, l1.target.id
        idx = '%s, %s' % (a, b)
        def ix(e):
            return ', '.join(repr(x) for x in e.index) if isinstance(e.index, tuple) else str(e.index)
        cm = f.params[0]
        okv = any(ix(e) == idx and isinstance(e.value, Rat) and e.value.single_atom() == '%s[%s]' % (cm, idx) for e in evs)
        okm = any(ix(e) == idx and isinstance(e.value, Rat) and e.value.isconst() and e.value.constval() < 0 for e in evs)
        okr = r0 and r1 and w.rel.is_zero(r0[0]) and w.rel.is_zero(r0[1] - N) and w.rel.is_zero(r1[1] - N) and \
            (w.rel.is_zero(r1[0] - Rat.atom(a)) or w.rel.is_zero(r1[0]))
        wit = {'stores': [repr(e) for e in evs], 'ranges': [[repr(x) for x in r0] if r0 else None, [repr(x) for x in r1] if r1 else None]}
        if okv and okm and okr:
            okI = True
    if dtext is not None and dtext.startswith('np.zeros('):
        if not okI and wit is None:
            raise shape_error('optimalPartition: initialisation of D/M not understood', f.loc())
        ctx.check(okI, 'C12.R', f, 'initially D = cost and M = -1 (negative = no split) on the whole upper triangle',
                  witness=wit, node=f.node, key='init')
    elif fresh and cm in dtext:
        ctx.ok('C12.R', f, 'D is initialised as a copy of the cost matrix', node=f.node)
    elif fresh:
        raise shape_error('optimalPartition: cannot see how D receives the costs', f.loc())


def rule_B(ctx):
    """C12.B expansion of the split table: leaf test on its finite case domain, recursive shape"""
    fb = ctx.prog.func(SEG + '.backtracking')
    fw = ctx.prog.func(SEG + '.backward')
    B, pi, pj = fb.params[:3]
    w = Walker(fb, loop_mode='skip')
    outs = [o for o in w.run(body_nodocstring(fb), State()) if o.kind == 'return']
    leaves = [o for o in outs if isinstance(o.value, list)]
    recs = [o for o in outs if not isinstance(o.value, list)]
    if not leaves or not recs:
        raise shape_error('backtracking: expected a leaf return and a recursive return', fb.loc())
    for o in leaves:
        ctx.check(len(o.value) == 1 and isinstance(o.value[0], Rat) and o.value[0].single_atom() == pi, 'C12.B', fb,
                  'a leaf interval contributes its left end [i]', witness={'returned': repr(o.value)}, node=o.node, key='leaf-val')
    # leaf test on the case domain (split recorded? x gap): comparisons only
    iff = [s_ for s_ in body_nodocstring(fb) if isinstance(s_, ast.If)]
    if len(iff) != 1 or not any(isinstance(n_, ast.Return) and isinstance(n_.value, ast.List) for n_ in iff[0].body):
        raise shape_error('backtracking: leaf test not found', fb.loc())
    bad = []
    for gap in (1, 2, 3, 4):
        for split in [-1] + list(range(1, gap)):
            T = Table(B, {(0, gap): float(split)})
            try:
                leaf = bool(orders.ev(iff[0].test, {B: T, pi: 0, pj: gap}))
            except orders.Unsupported as e:
                raise shape_error('leaf test not interpretable: %s' % e, fb.loc(iff[0]))
            want = split < 0
            if leaf != want:
                bad.append({'interval': [0, gap], 'recorded split': split, 'treated as leaf': leaf})
    ctx.check(not bad, 'C12.B', fb,
              'an interval is a leaf exactly when no split point is recorded for it (every recorded split is expanded)',
              witness={'wrong cases': bad[:5]}, node=iff[0], key='leaf-test')
    for o in recs:
        rv = o.node.value
        okr = isinstance(rv, ast.BinOp) and isinstance(rv.op, ast.Add) and isinstance(rv.left, ast.Call) and \
            isinstance(rv.right, ast.Call) and getattr(rv.left.func, 'id', None) == fb.name and \
            getattr(rv.right.func, 'id', None) == fb.name
        if not okr:
            raise shape_error('backtracking: recursive return is not bt(...) + bt(...)', fb.loc(o.node))
        la = [w.ex(a, o.state) for a in rv.left.args]
        ra = [w.ex(a, o.state) for a in rv.right.args]
        mid = 'int(%s[%s, %s])' % (B, pi, pj)
        def nm(v):
            return v.single_atom() if isinstance(v, Rat) else repr(v)
        ok = [nm(x) for x in la] == [B, pi, mid] and [nm(x) for x in ra] == [B, mid, pj]
        ctx.check(ok, 'C12.B', fb, 'otherwise the result is expand(i, m) followed by expand(m, j), m the recorded split of (i, j)',
                  witness={'left call': [nm(x) for x in la], 'right call': [nm(x) for x in ra]}, node=o.node, key='rec')
    wb = Walker(fw, loop_mode='skip')
    bo = [o for o in wb.run(body_nodocstring(fw), State()) if o.kind == 'return']
    rv = bo[0].node.value if len(bo) == 1 else None
    okb = isinstance(rv, ast.BinOp) and isinstance(rv.op, ast.Add) and isinstance(rv.left, ast.Call) and \
        getattr(rv.left.func, 'id', None) == fb.name and isinstance(rv.right, ast.List) and len(rv.right.elts) == 1
    if okb:
        Bn = fw.params[0]
        la = [wb.ex(a, bo[0].state) for a in rv.left.args]
        last = wb.ex(rv.right.elts[0], bo[0].state)
        n1 = Rat.atom('%s.shape[0]' % Bn) - Rat.const(1)
        okb = isinstance(la[0], Rat) and la[0].single_atom() == Bn and wb.rel.is_zero(la[1]) and \
            wb.rel.is_zero(la[2] - n1) and wb.rel.is_zero(last - n1)
    ctx.check(okb, 'C12.B', fw, 'backward(M) = expand(0, n-1) + [n-1]: from the first to the last candidate',
              witness={'return': unparse(rv) if rv is not None else None}, node=fw.node, key='backward')
    f = ctx.prog.func(SEG + '.optimalPartition')
    rets = [s for s in ast.walk(f.node) if isinstance(s, ast.Return) and s.value is not None]
    ldiag, li, lk = _dp_loops(f)
    ptr = sorted({x.value.id for x in ast.walk(lk) if isinstance(x, ast.Subscript) and isinstance(x.ctx, ast.Store)
                  and isinstance(x.value, ast.Name)} -
                 {x.value.id for x in ast.walk(lk) if isinstance(x, ast.Subscript) and isinstance(x.ctx, ast.Load)
                  and isinstance(x.value, ast.Name)})
    ok = len(rets) == 1 and len(ptr) == 1 and unparse(rets[0].value) == 'backward(%s)' % ptr[0]
    ctx.check(ok, 'C12.B', f, 'optimalPartition returns backward(split table)',
              witness={'return': unparse(rets[0].value) if rets else None}, node=f.node, key='ret')


def rule_C(ctx):
    """C12.C delegating callers"""
    # stop detection maximises
    n = 0
    for q, fi in sorted(ctx.prog.functions.items()):
        if not q.startswith(SEG + '.') or fi.name in ('optimalPartition', 'optimalSegmentation'):
            continue
        for c in ast.walk(fi.node):
            if isinstance(c, ast.Call) and getattr(c.func, 'id', None) == 'optimalPartition':
                n += 1
                a = unparse(c.args[1]) if len(c.args) > 1 else None
                for kw in c.keywords:
                    if kw.arg == 'mode':
                        a = unparse(kw.value)
                ctx.check(a == 'MODE_SEGMENTATION_MAXIMIZE', 'C12.C', fi,
                          'stop detection maximises its reward matrix (documented criterion)',
                          witness={'direction argument': a}, node=c, key='stops:' + fi.name)
    if n == 0:
        raise shape_error('no stop-detection caller of optimalPartition found')
    # optimalSegmentation forwards mode and builds the matrix from the cost function
    f = ctx.prog.func(SEG + '.optimalSegmentation')
    w = Walker(f, loop_mode='once')
    outs = [o for o in w.run(body_nodocstring(f), State({f.params[4]: Rat.const(0)})) if o.kind == 'return']
    if not outs:
        raise shape_error('optimalSegmentation has no return', f.loc())
    tr, cost, gp, mode = f.params[:4]
    for o in outs[:1]:
        pc = [e for e in o.state.events if e.kind == 'call' and e.name == 'optimalPartition']
        okf = len(pc) == 1 and len(pc[0].args) >= 2 and isinstance(pc[0].args[1], Rat) and pc[0].args[1].single_atom() == mode
        ctx.check(okf, 'C12.C', f, 'optimalSegmentation forwards its mode argument to optimalPartition',
                  witness={'call': unparse(pc[0].node) if pc else None}, node=f.node, key='fwd-mode')
        # the matrix handed over: the filled triangle mirrored, every value kept as computed (whatever its sign)
        if pc and pc[0].args:
            m = pc[0].args[0]
            mt = vr(m)
            sym = False
            if isinstance(m, Rat) and m.ispoly():
                ats = sorted(m.atoms())
                if len(ats) == 2:
                    base = [a_ for a_ in ats if a_.isidentifier()]
                    if len(base) == 1 and set(ats) - set(base) <= {'np.transpose(%s)' % base[0], '%s.T' % base[0], '%s.transpose()' % base[0], 'numpy.transpose(%s)' % base[0]}:
                        sym = w.rel.is_zero(m - Rat.atom(ats[0]) - Rat.atom(ats[1]))
                elif len(ats) == 1 and ats[0].isidentifier():
                    sym = True
            clip = any(mt.startswith(x) for x in ('np.maximum(', 'np.minimum(', 'np.abs(', 'np.clip(', 'np.fmax(', 'np.fmin(', 'abs('))
            if clip:
                ctx.violation('C12.C', f, 'the cost matrix handed to the dynamic programme holds the costs as the cost function returned them',
                              {'matrix passed': mt, 'why': 'the unfilled triangle is 0: an element-wise max/min/abs with the transpose replaces every negative '
                               '(resp. positive) cost by 0, so a criterion with negative values is optimised on the wrong table'}, node=pc[0].node, key='sym-clip')
            else:
                ctx.recognise(sym, 'C12.C', f, 'the cost matrix is mirrored by adding its transpose (the other triangle is zero): values unchanged', node=pc[0].node)
        cc = [e for e in o.state.events if e.kind == 'call' and e.name == cost]
        if not cc:
            raise shape_error('optimalSegmentation never calls the cost function', f.loc())
        for e in cc:
            conds = [cj for c, _ in e.conds for cj in c.conjuncts()]
            isnone = [c for c in conds if c.kind == 'cmp' and c.op in ('==', '!=') and
                      ((isinstance(c.a, Rat) and c.a.single_atom() == gp and c.b is None) or
                       (isinstance(c.b, Rat) and c.b.single_atom() == gp and c.a is None))]
            truthy = [c for c in conds if gp in repr(c) and c not in isnone]
            passes_gp = any(isinstance(a, Rat) and a.single_atom() == gp for a in e.args) or \
                any(gp in repr(a) for a in e.args[3:])
            if passes_gp:
                good = any(c.op == '!=' for c in isnone) and not truthy
                desc = 'the global parameter is passed to the cost function whenever it is not None'
            else:
                good = any(c.op == '==' for c in isnone) and not truthy
                desc = 'the 3-argument form of the cost function is used only when the global parameter is None'
            ctx.check(good, 'C12.C', f, desc,
                      witness={'guards of this call': [repr(c) for c in conds],
                               'why': 'a truthiness test drops a legitimate parameter equal to 0'},
                      node=e.node, key='gp:%s' % passes_gp)
            # segment (i, j-1) of the track
            ok3 = len(e.args) >= 3 and isinstance(e.args[0], Rat) and e.args[0].single_atom() == tr
            ctx.check(ok3, 'C12.C', f, 'the cost function receives the track first', witness={'args': [repr(a) for a in e.args]},
                      node=e.node, key='costargs:%s' % passes_gp)
    # optimalSimplification / simplify (known API defects are reported through known_findings.json)
    g = ctx.prog.func(SIM + '.optimalSimplification')
    gm = g.params[3] if len(g.params) > 3 else None
    calls = [c for c in ast.walk(g.node) if isinstance(c, ast.Call) and getattr(c.func, 'id', None) == 'optimalSegmentation']
    if len(calls) != 1:
        raise shape_error('optimalSimplification does not call optimalSegmentation once', g.loc())
    c = calls[0]
    fw = (len(c.args) >= 4 and unparse(c.args[3]) == gm) or any(k.arg == 'mode' and unparse(k.value) == gm for k in c.keywords)
    ctx.check(fw, 'C12.C', g, 'optimalSimplification forwards its mode (direction) to optimalSegmentation',
              witness={'call': unparse(c), 'parameter never forwarded': gm}, node=c, key='simp-mode')
    s = ctx.prog.func(SIM + '.simplify')
    for c in ast.walk(s.node):
        if isinstance(c, ast.Call) and getattr(c.func, 'id', None) == 'optimalSimplification':
            nmax = len(g.params)
            okn = len(c.args) + len(c.keywords) <= nmax
            # the 4th positional actual must be a direction, never `verbose`
            ok4 = len(c.args) < 4 or unparse(c.args[3]) != s.params[3]
            ctx.check(okn and ok4, 'C12.C', s,
                      'simplify binds its arguments to the right formals of optimalSimplification(track, cost, eps, mode)',
                      witness={'call': unparse(c), 'formals': g.params,
                               'why': 'verbose lands in the mode slot' if not ok4 else 'too many arguments (TypeError)'},
                      node=c, key='simplify:' + unparse(c))


RULES = [
    ('C12.D', rule_D, 'quick'),
    ('C12.R', rule_R, 'quick'),
    ('C12.B', rule_B, 'quick'),
    ('C12.C', rule_C, 'quick'),
]
MIN_OBLIGATIONS = 12
