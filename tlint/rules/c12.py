"""C12 - optimal partitioning (tracklib/algo/segmentation.py, simplification.py)."""
import ast
import itertools

from ..alg import Rat
from ..report import weighed
from ..loader import shape_error, anchor_error
from ..sx import Walker, State
from .. import orders
from ..orders import Table
from ..util import body_nodocstring, names_stored, unparse

SEG = 'tracklib.algo.segmentation'
SIM = 'tracklib.algo.simplification'

EXPLANATION = (
    "Static analysis of optimalPartition / backtracking / backward / optimalSegmentation and their callers: the functions are "
    "interpreted (not executed) by the checker's AST interpreter with a model of numpy arrays.  The partition returned is the "
    "optimum of the direction asked for on every weak ordering of the sums of the candidate lists (n = 3, 4) and when each list "
    "in turn is the unique optimum (n = 2..6); the split-table expansion is interpreted on all consistent split tables for n <= 5 "
    "and on sparse tables of up to 130 candidates; the chain simplify -> optimalSimplification -> optimalSegmentation forwards the "
    "direction it documents, a symmetric matrix with the costs as returned and the global parameter iff it is not None; the reward "
    "of the stop detector is the one documented (minimal enclosing circle, by the checker) and stops are found by maximising.")
ASSUMPTIONS = ["the cost matrix is read only through D (checked: initialisation copies the upper triangle)"]
TECHNIQUE = "abstract interpretation of optimalPartition / backward / backtracking and of the delegation chain simplify -> optimalSimplification -> optimalSegmentation by the checker's AST interpreter with a numpy array model: every weak ordering of the candidate-list sums for n = 3, 4 (four embeddings, costs of either sign), every list the unique optimum for n = 2..6, all 303 consistent split tables, uint8 matrices, recorded direction / matrix / parameter of the chain, the stop-detection reward with a recording stand-in for the partitioner (bounded case domains)"


def vr(v):
    if isinstance(v, Rat):
        a = v.single_atom()
        return a if a is not None else repr(v)
    return repr(v)


def _consts(ctx):
    m = ctx.prog.module(SEG)
    out = {}
    for k in ('MODE_SEGMENTATION_MINIMIZE', 'MODE_SEGMENTATION_MAXIMIZE'):
        v = m.consts.get(k)
        if not isinstance(v, ast.Constant):
            raise anchor_error('module constant %s not found' % k, SEG)
        out[k] = v.value
    if out['MODE_SEGMENTATION_MINIMIZE'] == out['MODE_SEGMENTATION_MAXIMIZE']:
        raise shape_error('the two direction constants are equal')
    return out


def _lists(n):
    """all strictly increasing index lists from 0 to n-1"""
    out = []
    for r in range(n - 1):
        for mid in itertools.combinations(range(1, n - 1), r):
            out.append([0] + list(mid) + [n - 1])
    return out


def _segs(lst):
    return list(zip(lst[:-1], lst[1:]))


def _sym(n, cells, dtype='float'):
    """symmetric cost matrix over the n candidates 0..n-1, in the repository's convention: one extra (unused, zero) row and
    column - optimalPartition works on the leading shape[0]-1 indices, as its callers build it"""
    from .. import npstub
    rows = [[0] * (n + 1) for _ in range(n + 1)]
    for (i, j), v in cells.items():
        rows[i][j] = v
        rows[j][i] = v
    return npstub.make(rows, dtype)


def _harness(ctx):
    from .. import absint, npstub
    stubs = dict(npstub.stubs())
    stubs['progressbar'] = lambda x, **k: (v_ for v_ in x)
    stubs['deepcopy'] = absint.deep_copy
    fn = absint.funcs(ctx, SEG, stubs)
    return fn


def _as_indices(res):
    from .. import npstub
    if isinstance(res, npstub.Arr):
        res = res.tolist_flat()
    if not isinstance(res, (list, tuple)):
        return None
    out = []
    for v in res:
        if isinstance(v, bool) or not isinstance(v, (int, float)) or v != int(v):
            return None
        out.append(int(v))
    return out


def rule_X(ctx):
    """C12.D/R/B the whole dynamic programme (optimalPartition -> backward -> backtracking) interpreted on case domains"""
    f = ctx.prog.func(SEG + '.optimalPartition')
    consts = _consts(ctx)
    fn = _harness(ctx)
    call = orders.make_func(f.node, fn)
    run = __import__('tlint.absint', fromlist=['guard']).guard(f, 'optimalPartition')
    params = f.params
    has_verbose = 'verbose' in params
    n_cases = 0
    bad = {'order': [], 'unique': [], 'alias': [], 'dtype': [], 'form': []}

    def invoke(C, mval):
        kw = {'verbose': False} if has_verbose else {}
        try:
            return run(lambda: call(C, mval, **kw)), None
        except orders.PROGRAM_ERRORS as ex:
            return None, '%s: %s' % (type(ex).__name__, str(ex)[:200])

    def judge(kind, n, cells, mname, mval, want_min, label, dtype='float'):
        nonlocal n_cases
        n_cases += 1
        C = _sym(n, cells, dtype)
        before = C.tolist()
        res, exc = invoke(C, mval)
        lists = _lists(n)
        sums = {tuple(l): sum(cells[s] for s in _segs(l)) for l in lists}
        best = (min if want_min else max)(sums.values())
        got = _as_indices(res) if exc is None else None
        okform = got is not None and len(got) >= 2 and got[0] == 0 and got[-1] == n - 1 and all(a < b for a, b in zip(got, got[1:]))
        if n == 1:
            okform = got == [0] or okform
        if not okform:
            if len(bad['form']) < 4:
                bad['form'].append({'n': n, 'mode': mname, 'case': label, 'returned': repr(res) if exc is None else exc,
                                    'expected': 'a strictly increasing list from 0 to %d' % (n - 1)})
        elif n >= 2 and sums[tuple(got)] != best:
            if len(bad[kind]) < 4:
                bad[kind].append({'n': n, 'mode': mname, 'case': label, 'returned': got, 'its summed cost': sums[tuple(got)],
                                  'optimum': best, 'an optimal list': [list(l) for l, v in sums.items() if v == best][0],
                                  'segment costs': {'%d-%d' % k: v for k, v in sorted(cells.items())}})
        if C.tolist() != before and len(bad['alias']) < 3:
            diff = [(i, j) for i in range(n + 1) for j in range(n + 1) if C.tolist()[i][j] != before[i][j]]
            bad['alias'].append({'n': n, 'mode': mname, 'cells of the caller\'s matrix overwritten': diff[:6],
                                 'why': 'the programme updates its value table in place; a table that is (a view of) the argument destroys the '
                                        'caller\'s costs, so a second call on the same matrix optimises garbage'})

    for mname, mval in consts.items():
        want_min = mname.endswith('MINIMIZE')
        # (a) n = 3 and n = 4: every weak ordering of the summed costs of all candidate lists.  Each list owns a private segment
        #     (0-(n-1); 1-3; 0-2; 1-2 for n = 4), so every ordering is realised by some matrix; all decisions of the interval
        #     recurrence compare such sums.
        for n in (3, 4):
            lists = _lists(n)
            names = ['L%d' % k for k in range(len(lists))]
            for o in orders.weak_orderings(names):
                ranks = [o[nm] for nm in names]
                # several embeddings of the same ordering: adjacent segments dear / free / negative, all sums positive or negative
                for base, K in ((100, 310), (0, 10), (-100, -1000), (-1, -8)):
                    t = {tuple(l): K + ranks[k] for k, l in enumerate(lists)}
                    if n == 3:
                        cells = {(0, 1): base, (1, 2): t[(0, 1, 2)] - base, (0, 2): t[(0, 2)]}
                    else:
                        cells = {(0, 1): base, (2, 3): base, (1, 2): t[(0, 1, 2, 3)] - 2 * base, (0, 3): t[(0, 3)],
                                 (1, 3): t[(0, 1, 3)] - base, (0, 2): t[(0, 2, 3)] - base}
                    judge('order', n, cells, mname, mval, want_min, 'ordering of the list sums: ' + orders.describe(
                        {'+'.join('%d-%d' % s_ for s_ in _segs(l)): ranks[k] for k, l in enumerate(lists)}))
        # (b) n = 2..6: each candidate list in turn is the unique optimum (its segments cost 1 resp. 10, every other segment 10 resp. 1)
        for n in ((2, 3, 4, 5, 6, 7, 8) if ctx.tier == 'thorough' else (2, 3, 4, 5, 6)):
            for target in _lists(n):
                tset = set(_segs(target))
                # ... and costs that double precision tells apart but a narrower table would not: differences of 2^-30 around 1,
                #     magnitudes of 1e299-1e300 (the library's own sentinel for "no segment")
                for lo, hi in ((1, 10), (-10, -1)) + (((1.0, 1.0 + 2.0 ** -30), (1e299, 1e300), (1e-11, 1e-10), (-1e-10, -1e-11)) if n in (3, 4, 5) else ()):
                    # (lo, hi) = (1, 10): the segments of the target are cheap (dear when maximising), all others dear (cheap);
                    # (-10, -1): the same with negative costs.  Any other list then has a strictly worse sum.
                    good, other = (lo, hi) if want_min else (hi, lo)
                    cells = {(i, j): (good if (i, j) in tset else other) for i in range(n) for j in range(i + 1, n)}
                    lsum = {tuple(l): sum(cells[s_] for s_ in _segs(l)) for l in _lists(n)}
                    bestv = (min if want_min else max)(lsum.values())
                    if [l for l, v in lsum.items() if v == bestv] != [tuple(target)]:
                        continue        # this embedding does not single the target out (negative costs favour long lists when minimising)
                    judge('unique', n, cells, mname, mval, want_min, 'unique optimum %r' % (target,))
        # (c) a narrow integer matrix whose segment costs fit the type but whose sums do not (the table must not inherit the dtype):
        #     only judged where the same costs as floats are answered correctly
        for n, cells in ((3, {(0, 1): 200, (1, 2): 200, (0, 2): 150}),
                         (4, {(0, 1): 200, (1, 2): 200, (2, 3): 10, (0, 2): 150, (1, 3): 250, (0, 3): 255})):
            lists = _lists(n)
            sums = {tuple(l): sum(cells[s_] for s_ in _segs(l)) for l in lists}
            best = (min if want_min else max)(sums.values())
            outcome = {}
            for dt in ('float', 'uint8'):
                res, exc = invoke(_sym(n, cells, dt), mval)
                n_cases += 1
                got = _as_indices(res) if exc is None else None
                outcome[dt] = (got is not None and tuple(got) in sums and sums[tuple(got)] == best, got if got is not None else (exc or repr(res)))
            if outcome['float'][0] and not outcome['uint8'][0] and len(bad['dtype']) < 3:
                bad['dtype'].append({'n': n, 'mode': mname, 'matrix dtype': 'uint8', 'returned': outcome['uint8'][1],
                                     'optimum': best, 'an optimal list': [list(l) for l, v in sums.items() if v == best][0],
                                     'the same costs as floats': 'answered correctly',
                                     'why': 'sums of two uint8 costs stored in a table of the caller\'s dtype wrap modulo 256'})
    ctx.extra['cases_interpreted'] = n_cases
    ctx.check(not bad['form'], 'C12.B', f, 'the result is a strictly increasing index list from the first to the last candidate '
              '(all case matrices, n = 2..6)', witness={'cases': bad['form']}, node=f.node, key='form')
    ctx.check(not bad['order'], 'C12.D', f,
              'for every weak ordering of the summed costs of the candidate lists (n = 3: 3 orderings, n = 4: 75 orderings; four embeddings each, costs of either sign) and both '
              'directions the returned list attains the minimum (MINIMIZE) resp. the maximum (MAXIMIZE)',
              witness={'counter-examples': bad['order']}, node=f.node, key='direction')
    ctx.check(not bad['unique'], 'C12.R', f,
              'each of the 2^(n-2) candidate lists, made the unique optimum in turn (n = 2..6, both directions), is the one returned: '
              'every interval and every interior split point is examined and the split table is expanded in full',
              witness={'counter-examples': bad['unique']}, node=f.node, key='recurrence')
    ctx.check(not bad['alias'], 'C12.R', f, 'the caller\'s cost matrix is left as it was (the programme works on a private table)',
              witness={'cases': bad['alias']}, node=f.node, key='alias')
    ctx.check(not bad['dtype'], 'C12.R', f, 'the value table holds sums exactly whatever the dtype of the caller\'s matrix (uint8 costs whose sums exceed 255)',
              witness={'cases': bad['dtype']}, node=f.node, key='dtype')


def rule_B(ctx):
    """C12.B expansion of the split table: backward() interpreted on every consistent split table for n <= 5"""
    from .. import npstub
    fw = ctx.prog.func(SEG + '.backward')
    fn = _harness(ctx)
    call = orders.make_func(fw.node, fn)
    run = __import__('tlint.absint', fromlist=['guard']).guard(fw, 'backward')

    def expand(M, i, j):
        m = M.get((i, j), -1)
        if m < 0:
            return [i]
        return expand(M, i, m) + expand(M, m, j)
    bad = []
    n_tab = 0
    for n in (2, 3, 4, 5):
        cells = [(i, j) for d in range(2, n) for i in range(n - d) for j in [i + d]]
        for choice in itertools.product(*[[-1] + list(range(i + 1, j)) for i, j in cells]):
            M = dict(zip(cells, choice))
            rows = [[-1.0] * n for _ in range(n)]
            for (i, j), v in M.items():
                rows[i][j] = float(v)
            A = npstub.make(rows, 'float')
            n_tab += 1
            try:
                got = _as_indices(run(lambda: call(A)))
            except (IndexError, KeyError, TypeError, ValueError, RecursionError) as ex:
                got = '%s: %s' % (type(ex).__name__, str(ex)[:200])
            want = expand(M, 0, n - 1) + [n - 1]
            if got != want and len(bad) < 5:
                bad.append({'n': n, 'recorded splits': {'%d-%d' % k: v for k, v in M.items() if v >= 0}, 'returned': got, 'expected': want})
    # long candidate lists with few break points (the result is an ordered list whatever containers hold the break points on the way)
    for n, splits in ((9, {(0, 8): 5}), (10, {(0, 9): 5}), (12, {(0, 11): 9, (0, 9): 4}), (12, {(0, 11): 3, (3, 11): 10}), (33, {(0, 32): 20}), (40, {(0, 39): 33, (0, 33): 17, (33, 39): 36}),
                      (70, {(0, 69): 64, (0, 64): 8}), (130, {(0, 129): 100})):
        M = dict(splits)
        rows = [[-1.0] * n for _ in range(n)]
        for (i, j), v in M.items():
            rows[i][j] = float(v)
        A = npstub.make(rows, 'float')
        n_tab += 1
        try:
            got = _as_indices(run(lambda: call(A)))
        except (IndexError, KeyError, TypeError, ValueError, RecursionError) as ex:
            got = '%s: %s' % (type(ex).__name__, str(ex)[:200])
        want = expand(M, 0, n - 1) + [n - 1]
        if got != want and len(bad) < 5:
            bad.append({'n': n, 'recorded splits': {'%d-%d' % k: v for k, v in M.items() if v >= 0}, 'returned': got, 'expected': want})
    ctx.extra['split_tables_interpreted'] = n_tab
    ctx.check(not bad, 'C12.B', fw,
              'backward(M) expands every recorded split point, recursively, into the increasing list from 0 to n-1 '
              '(all consistent split tables for n <= 5 and eight sparse tables for n = 9 ... 130: %d tables)' % n_tab, witness={'wrong expansions': bad}, node=fw.node, key='expand')


def rule_S(ctx):
    """C12.C the delegation chain simplify -> optimalSimplification -> optimalSegmentation -> optimalPartition, interpreted with a
    recording stand-in for the dynamic programme: direction, matrix and global parameter as documented"""
    from .. import absint, npstub
    consts = _consts(ctx)
    MIN, MAX = consts['MODE_SEGMENTATION_MINIMIZE'], consts['MODE_SEGMENTATION_MAXIMIZE']
    msim = ctx.prog.module(SIM)
    fs = ctx.prog.func(SIM + '.simplify')
    fseg = ctx.prog.func(SEG + '.optimalSegmentation')
    n = 6

    class ObsS(orders.PyStub):
        def __init__(self, k):
            self.k = k

        def copy(self):
            return ObsS(self.k)

    class TrackS(orders.PyStub):
        isa = ('Track',)

        def __init__(self, *a, **kw):
            self.obs = [ObsS(k) for k in range(n)] if kw.pop('_full', False) else []
            self.uid, self.tid, self.base = kw.get('user_id', 'U'), kw.get('track_id', 'T'), kw.get('base', None)

        def size(self):
            return len(self.obs)

        def __len__(self):
            return len(self.obs)

        def getObs(self, i):
            if not isinstance(i, int) or not -len(self.obs) <= i < len(self.obs):
                raise IndexError('getObs(%r)' % (i,))
            return self.obs[i]

        def __getitem__(self, i):
            return self.getObs(i)

        def addObs(self, o):
            self.obs.append(o)

        def copy(self):
            t = TrackS()
            t.obs = [o.copy() for o in self.obs]
            return t

    def run_chain(entry, make_args, module):
        """interpret `entry` with optimalPartition replaced by a recorder; returns (records, cost calls, result, exception text)"""
        rec, calls = [], []
        stubs = dict(npstub.stubs())
        stubs['progressbar'] = lambda x, **k: (v_ for v_ in x)
        stubs['Track'] = TrackS

        def partition(cm, mode=MIN, verbose=True):
            rec.append((cm, mode))
            return [0, 2, n - 2] if False else [0, n - 2]
        stubs['optimalPartition'] = partition
        # the library's own cost functions (formals track, i, j[, parameter]) are replaced by stand-ins: their values do not matter here
        for q, fi in ctx.prog.functions.items():
            if q.startswith(SIM + '.') and fi.cls is None and len(fi.params) >= 3 and fi.params[1:3] == ['i', 'j']:
                def standin(track, i, j, *p, _nm=fi.name, _np=len(fi.params)):
                    if len(p) + 3 != _np:
                        raise TypeError('%s() takes %d positional arguments but %d were given' % (_nm, _np, len(p) + 3))
                    calls.append((i, j, p[0] if p else 'no parameter'))
                    return cost_value(i, j)
                stubs[fi.name] = standin
        fn = absint.funcs(ctx, module, stubs)
        # functions of the sibling module are reached through the star imports
        for q in (SEG + '.optimalSegmentation', SIM + '.optimalSimplification'):
            fi = ctx.prog.maybe_func(q)
            if fi is not None and fi.name not in stubs:
                fn[fi.name] = orders.make_func(fi.node, absint.funcs(ctx, q.rsplit('.', 1)[0], stubs))
        try:
            res = orders.make_func(entry.node, fn)(*make_args(calls))
            return rec, calls, res, None
        except orders.Unsupported as ex:
            raise shape_error('%s not interpretable: %s' % (entry.name, ex), entry.loc())
        except orders.PROGRAM_ERRORS as ex:
            return rec, calls, None, '%s: %s' % (type(ex).__name__, ex)

    def cost_value(i, j):
        return -7.0 + 3 * i + 5 * j if (i + j) % 2 else 4.0 + i + 2 * j      # both signs, pairwise distinct enough

    # (1) optimalSegmentation: mode forwarded; matrix = the costs as returned (any sign), mirrored; global parameter passed iff not None
    for gp, label in ((None, 'None'), (0, '0 (a legitimate parameter)'), (2.5, '2.5')):
        for mval, mname in ((MIN, 'MINIMIZE'), (MAX, 'MAXIMIZE')):
            def args(calls, gp=gp, mval=mval):
                def cost3(track, i, j):
                    calls.append((i, j, 'no parameter'))
                    return cost_value(i, j)

                def cost4(track, i, j, p):
                    calls.append((i, j, p))
                    return cost_value(i, j)
                t = TrackS(_full=True)
                params = fseg.params
                kw = [t, cost3 if gp is None else cost4, gp, mval]
                if 'verbose' in params:
                    kw.append(False)
                return kw
            rec, calls, res, exc = run_chain(fseg, args, SEG)
            okcall = exc is None and len(rec) == 1
            ctx.check(okcall, 'C12.C', fseg, 'optimalSegmentation(glob_param=%s, %s) evaluates the cost function in the form that fits the '
                      'global parameter and runs the dynamic programme once' % (label, mname),
                      witness={'outcome': exc or ('%d calls of optimalPartition' % len(rec)),
                               'why': 'a cost function taking the global parameter must receive it whenever it is not None - 0 included'},
                      node=fseg.node, key='gp:%s' % (gp is not None))
            if not okcall:
                continue
            cm, got_mode = rec[0]
            ctx.check(got_mode == mval, 'C12.C', fseg, 'optimalSegmentation forwards its mode argument to optimalPartition',
                      witness={'requested': mname, 'value passed': repr(got_mode)}, node=fseg.node, key='fwd-mode')
            okp = all(c[2] == ('no parameter' if gp is None else gp) for c in calls)
            ctx.check(okp, 'C12.C', fseg, 'the global parameter reaches the cost function unchanged', witness={'calls': calls[:4], 'expected': label},
                      node=fseg.node, key='gp-val:%s' % (gp is not None))
            wrong = []
            if isinstance(cm, npstub.Arr) and len(cm.shape) == 2:
                rows = cm.tolist()
                seen = {(i, j): cost_value(i, j) for (i, j, _) in calls}
                for (i, jm1), v in sorted(seen.items()):
                    j = jm1 + 1
                    if i < j < len(rows) and (rows[i][j] != v or rows[j][i] != v):
                        wrong.append({'cell': [i, j], 'cost returned for segment (%d, %d)' % (i, jm1): v, 'matrix holds': [rows[i][j], rows[j][i]]})
            else:
                wrong.append({'matrix': repr(cm)[:80]})
            ctx.check(not wrong, 'C12.C', fseg, 'the matrix handed to the dynamic programme holds, symmetrically, the costs exactly as the cost '
                      'function returned them (negative values included)', witness={'cells': wrong[:4]}, node=fseg.node, key='sym-clip')
    # (2) simplify: every mode served by the dynamic programme optimises in the direction its name documents
    modes = {k: v.value for k, v in msim.consts.items() if k.startswith('MODE_SIMPLIFY_') and isinstance(v, ast.Constant)}
    want = {}
    for k, v in modes.items():
        if 'MAXIMIZE' in k:
            want[k] = MAX
        elif 'MINIMIZE' in k or k.endswith('_FREE') or 'PRECLUDE' in k:
            want[k] = MIN
    if len(want) < 2:
        raise shape_error('simplify: mode constants served by optimal simplification not found', fs.loc())
    served = 0
    for k, direction in sorted(want.items()):
        def args(calls, k=k):
            def usercost(track, i, j, *p):
                calls.append((i, j, p[0] if p else 'no parameter'))
                return cost_value(i, j)
            t = TrackS(_full=True)
            a = [t, usercost if 'FREE' in k else 1.5, modes[k]]
            if 'verbose' in fs.params:
                a.append(False)
            return a
        # private cost functions of the module: stand-ins (their values do not matter here)
        rec, calls, res, exc = run_chain(fs, args, SIM)
        if exc is not None and 'free name' in exc:
            raise shape_error('simplify not interpretable: %s' % exc, fs.loc())
        if exc is None and not rec:
            continue        # this mode is not served by the dynamic programme
        served += 1
        ok = exc is None and len(rec) == 1 and rec[0][1] == direction
        ctx.check(ok, 'C12.C', fs, 'simplify(mode=%s) optimises in the documented direction (%s)' % (k, 'maximise' if direction == MAX else 'minimise'),
                  witness={'outcome': exc or [repr(r[1]) for r in rec], 'expected direction constant': direction,
                           'why': 'optimalPartition reacts to MODE_SEGMENTATION_MINIMIZE/MAXIMIZE only; any other value optimises nothing or the wrong way'},
                  node=fs.node, key='simplify:' + k)
    if served < 2:
        raise shape_error('simplify: fewer than two modes reach the dynamic programme', fs.loc())
    # (3) stop detection maximises its reward
    ctx.extra['chain_cases'] = served + 6


def rule_C(ctx):
    """C12.C delegating callers"""
    # stop detection maximises
    n = 0
    for q, fi in sorted(ctx.prog.functions.items()):
        if not q.startswith(SEG + '.') or fi.name in ('optimalPartition', 'optimalSegmentation'):
            continue
        for c in ast.walk(fi.node):
            if isinstance(c, ast.Call) and getattr(c.func, 'id', None) == 'optimalPartition':
                n += 1
                a = unparse(c.args[1]) if len(c.args) > 1 else None
                for kw in c.keywords:
                    if kw.arg == 'mode':
                        a = unparse(kw.value)
                ctx.check(a == 'MODE_SEGMENTATION_MAXIMIZE', 'C12.C', fi,
                          'stop detection maximises its reward matrix (documented criterion)',
                          witness={'direction argument': a}, node=c, key='stops:' + fi.name)
    if n == 0:
        raise shape_error('no stop-detection caller of optimalPartition found')


def rule_K(ctx):
    """C12.K optimalSegmentation read symbolically: forwards mode and builds the matrix from the cost function (a shape rule: weighed
    against C12.S, which interprets the delegation chain with a recording stand-in for the dynamic programme)"""
    f = ctx.prog.func(SEG + '.optimalSegmentation')
    w = Walker(f, loop_mode='once')
    outs = [o for o in w.run(body_nodocstring(f), State({f.params[4]: Rat.const(0)})) if o.kind == 'return']
    if not outs:
        raise shape_error('optimalSegmentation has no return', f.loc())
    tr, cost, gp, mode = f.params[:4]
    for o in outs[:1]:
        pc = [e for e in o.state.events if e.kind == 'call' and e.name == 'optimalPartition']
        okf = len(pc) == 1 and len(pc[0].args) >= 2 and isinstance(pc[0].args[1], Rat) and pc[0].args[1].single_atom() == mode
        ctx.check(okf, 'C12.K', f, 'optimalSegmentation forwards its mode argument to optimalPartition',
                  witness={'call': unparse(pc[0].node) if pc else None}, node=f.node, key='fwd-mode')
        # the matrix handed over: the filled triangle mirrored, every value kept as computed (whatever its sign)
        if pc and pc[0].args:
            m = pc[0].args[0]
            mt = vr(m)
            sym = False
            if isinstance(m, Rat) and m.ispoly():
                ats = sorted(m.atoms())
                if len(ats) == 2:
                    base = [a_ for a_ in ats if a_.isidentifier()]
                    if len(base) == 1 and set(ats) - set(base) <= {'np.transpose(%s)' % base[0], '%s.T' % base[0], '%s.transpose()' % base[0], 'numpy.transpose(%s)' % base[0]}:
                        sym = w.rel.is_zero(m - Rat.atom(ats[0]) - Rat.atom(ats[1]))
                elif len(ats) == 1 and ats[0].isidentifier():
                    sym = True
            clip = any(mt.startswith(x) for x in ('np.maximum(', 'np.minimum(', 'np.abs(', 'np.clip(', 'np.fmax(', 'np.fmin(', 'abs('))
            if clip:
                ctx.violation('C12.K', f, 'the cost matrix handed to the dynamic programme holds the costs as the cost function returned them',
                              {'matrix passed': mt, 'why': 'the unfilled triangle is 0: an element-wise max/min/abs with the transpose replaces every negative '
                               '(resp. positive) cost by 0, so a criterion with negative values is optimised on the wrong table'}, node=pc[0].node, key='sym-clip')
            else:
                ctx.recognise(sym, 'C12.K', f, 'the cost matrix is mirrored by adding its transpose (the other triangle is zero): values unchanged', node=pc[0].node)
        cc = [e for e in o.state.events if e.kind == 'call' and e.name == cost]
        if not cc:
            raise shape_error('optimalSegmentation never calls the cost function', f.loc())
        for e in cc:
            conds = [cj for c, _ in e.conds for cj in c.conjuncts()]
            isnone = [c for c in conds if c.kind == 'cmp' and c.op in ('==', '!=') and
                      ((isinstance(c.a, Rat) and c.a.single_atom() == gp and c.b is None) or
                       (isinstance(c.b, Rat) and c.b.single_atom() == gp and c.a is None))]
            truthy = [c for c in conds if gp in repr(c) and c not in isnone]
            passes_gp = any(isinstance(a, Rat) and a.single_atom() == gp for a in e.args) or \
                any(gp in repr(a) for a in e.args[3:])
            if passes_gp:
                good = any(c.op == '!=' for c in isnone) and not truthy
                desc = 'the global parameter is passed to the cost function whenever it is not None'
            else:
                good = any(c.op == '==' for c in isnone) and not truthy
                desc = 'the 3-argument form of the cost function is used only when the global parameter is None'
            ctx.check(good, 'C12.K', f, desc,
                      witness={'guards of this call': [repr(c) for c in conds],
                               'why': 'a truthiness test drops a legitimate parameter equal to 0'},
                      node=e.node, key='gp:%s' % passes_gp)
            # segment (i, j-1) of the track
            ok3 = len(e.args) >= 3 and isinstance(e.args[0], Rat) and e.args[0].single_atom() == tr
            ctx.check(ok3, 'C12.K', f, 'the cost function receives the track first', witness={'args': [repr(a) for a in e.args]},
                      node=e.node, key='costargs:%s' % passes_gp)
    # optimalSimplification / simplify (known API defects are reported through known_findings.json)
    g = ctx.prog.func(SIM + '.optimalSimplification')
    gm = g.params[3] if len(g.params) > 3 else None
    calls = [c for c in ast.walk(g.node) if isinstance(c, ast.Call) and getattr(c.func, 'id', None) == 'optimalSegmentation']
    if len(calls) != 1:
        raise shape_error('optimalSimplification does not call optimalSegmentation once', g.loc())
    c = calls[0]
    fw = (len(c.args) >= 4 and unparse(c.args[3]) == gm) or any(k.arg == 'mode' and unparse(k.value) == gm for k in c.keywords)
    ctx.check(fw, 'C12.K', g, 'optimalSimplification forwards its mode (direction) to optimalSegmentation',
              witness={'call': unparse(c), 'parameter never forwarded': gm}, node=c, key='simp-mode')
    s = ctx.prog.func(SIM + '.simplify')
    for c in ast.walk(s.node):
        if isinstance(c, ast.Call) and getattr(c.func, 'id', None) == 'optimalSimplification':
            nmax = len(g.params)
            okn = len(c.args) + len(c.keywords) <= nmax
            # the 4th positional actual must be a direction, never `verbose`
            ok4 = len(c.args) < 4 or unparse(c.args[3]) != s.params[3]
            ctx.check(okn and ok4, 'C12.K', s,
                      'simplify binds its arguments to the right formals of optimalSimplification(track, cost, eps, mode)',
                      witness={'call': unparse(c), 'formals': g.params,
                               'why': 'verbose lands in the mode slot' if not ok4 else 'too many arguments (TypeError)'},
                      node=c, key='simplify:' + unparse(c))


def rule_F(ctx):
    """C12.F stop detection hands the dynamic programme the reward it documents: findStopsGlobal interpreted on small tracks (the
    repository's Track, Obs, ENUCoords, ObsTime) with a recording stand-in for optimalPartition and the minimal enclosing circle
    computed by the checker: cell (i, j) is (j - i)^2 when the fixes i ... j-1 fit in a circle of the given diameter and last longer
    than the given duration, 0 otherwise; the matrix is symmetric; the direction is MAXIMIZE"""
    import math
    import itertools as it
    from .. import absint, npstub
    consts = _consts(ctx)
    MAX = consts['MODE_SEGMENTATION_MAXIMIZE']
    f = ctx.prog.func(SEG + '.findStopsGlobal')
    rec = []
    stubs = dict(npstub.stubs())
    stubs['progressbar'] = lambda x, **k: (v_ for v_ in x)

    def partition(cm, mode=None, verbose=True):
        rec.append((cm, mode))
        raise orders.Raised('Recorded', 'cost matrix handed over')
    stubs['optimalPartition'] = partition

    def circle_of(points):
        """radius of the minimal enclosing circle of at most a dozen points (brute force over pairs and triples)"""
        pts = sorted(set(points))
        if len(pts) == 1:
            return 0.0
        best = None
        cands = []
        for a, b in it.combinations(pts, 2):
            cands.append((((a[0] + b[0]) / 2.0, (a[1] + b[1]) / 2.0), math.hypot(a[0] - b[0], a[1] - b[1]) / 2.0))
        for a, b, c in it.combinations(pts, 3):
            d = 2.0 * (a[0] * (b[1] - c[1]) + b[0] * (c[1] - a[1]) + c[0] * (a[1] - b[1]))
            if abs(d) < 1e-12:
                continue
            ux = ((a[0] ** 2 + a[1] ** 2) * (b[1] - c[1]) + (b[0] ** 2 + b[1] ** 2) * (c[1] - a[1]) + (c[0] ** 2 + c[1] ** 2) * (a[1] - b[1])) / d
            uy = ((a[0] ** 2 + a[1] ** 2) * (c[0] - b[0]) + (b[0] ** 2 + b[1] ** 2) * (a[0] - c[0]) + (c[0] ** 2 + c[1] ** 2) * (b[0] - a[0])) / d
            cands.append(((ux, uy), math.hypot(a[0] - ux, a[1] - uy)))
        for (cx, cy), r in cands:
            if all(math.hypot(p[0] - cx, p[1] - cy) <= r * (1 + 1e-12) + 1e-12 for p in pts) and (best is None or r < best):
                best = r
                CENTRE[0] = (cx, cy)
        return best
    CENTRE = [None]

    class Circle(orders.PyStub):
        def __init__(self, radius):
            self.radius = radius
            self.center = None

    fn = absint.funcs(ctx, SEG, stubs)
    T = absint.classref(ctx, 'tracklib.core.track.Track', fn)
    EN = absint.classref(ctx, 'tracklib.core.obs_coords.ENUCoords', fn)
    OT = absint.classref(ctx, 'tracklib.core.obs_time.ObsTime', fn)
    fn['sqrt'], fn['hypot'] = math.sqrt, math.hypot

    try:
        RepoCircle = absint.classref(ctx, 'tracklib.util.geometrics.Circle', fn)
    except Exception:          # noqa: BLE001
        RepoCircle = None

    def min_circle(piece):
        pts_ = [(o.fields['position'].fields['E'], o.fields['position'].fields['N']) for o in piece.fields['_Track__POINTS']]
        if not pts_:
            return None
        r_ = circle_of(pts_)
        if RepoCircle is not None:
            # (the circle is an object of the repository's own Circle class - centre and radius by the checker - for code that asks it more than its radius)
            cx, cy = CENTRE[0] if len(set(pts_)) > 1 else pts_[0]
            return RepoCircle(EN(cx, cy, 0.0), r_)
        return Circle(r_)
    fn['minCircle'] = min_circle
    fn['__globals__']['minCircle'] = min_circle
    run = orders.make_func(f.node, fn)
    D = 10.0
    tracks = {
        'a stop (four fixes within 3 m) between two moves': ([(0, 0), (30, 0), (60, 0), (61, 1), (62, 0), (61, -1), (90, 0), (120, 0)], 10),
        'three fixes at the corners of a triangle of side 0.9 x diameter (each within the diameter of the first, enclosing circle wider than the diameter), then a tight stop':
            ([(0, 0), (9, 0), (4.5, 7.794), (4.6, 7.8), (4.4, 7.7), (4.5, 7.9), (40, 40)], 10),
        'fixes spread on a line, each 4 m from the next': ([(0, 0), (4, 0), (8, 0), (12, 0), (16, 0), (20, 0)], 10),
        'all fixes at one place': ([(5, 5)] * 6, 10),
    }
    bad = None
    n = 0
    try:
        for label, (pts, step) in tracks.items():
            for duration in (15.0, 25.0):
                del rec[:]
                n += 1
                obs = [absint.real_obs(ctx, fn, EN(float(x_), float(y_), 0.0), OT.readUnixTime(1.6e9 + step * k)) for k, (x_, y_) in enumerate(pts)]
                t = T(obs, 'u', 't')
                try:
                    run(t, D, duration, 1, False)
                except orders.Raised as ex:
                    if ex.name != 'Recorded':
                        bad = bad or {'track': label, 'exception': '%s: %s' % (ex.name, str(ex)[:160])}
                        continue
                if len(rec) != 1:
                    bad = bad or {'track': label, 'optimalPartition called': len(rec)}
                    continue
                cm, mode = rec[0]
                N = len(pts)
                cell = lambda i, j: (cm[i, j] if hasattr(cm, '__getitem__') else None)
                if mode != MAX:
                    bad = bad or {'track': label, 'direction handed to optimalPartition': mode, 'MODE_SEGMENTATION_MAXIMIZE': MAX}
                for i in range(N):
                    for j in range(i + 1, N):
                        want = 0.0
                        if i <= N - 3 and j <= N - 2:
                            seg = [(float(x_), float(y_)) for x_, y_ in pts[i:j]]
                            dur = step * (j - 1 - i)
                            if 2.0 * circle_of(seg) < D and dur > duration:
                                want = float((j - i) ** 2)
                        got = cell(i, j)
                        gs = cell(j, i)
                        if not (isinstance(got, (int, float)) and abs(float(got) - want) < 1e-9 and isinstance(gs, (int, float)) and abs(float(gs) - want) < 1e-9):
                            bad = bad or {'track': label, 'fixes': [list(p_) for p_ in pts], 'sampling (s)': step, 'diameter': D, 'duration': duration, 'cell': [i, j],
                                          'reward handed over': [got if isinstance(got, (int, float)) else repr(got), gs if isinstance(gs, (int, float)) else repr(gs)],
                                          'documented reward': want, 'enclosing circle diameter of fixes i ... j-1': 2.0 * circle_of([(float(x_), float(y_)) for x_, y_ in pts[i:j]]),
                                          'their duration': step * (j - 1 - i)}
    except orders.Unsupported as ex:
        raise shape_error('findStopsGlobal not interpretable: %s' % ex, f.loc())
    except orders.PROGRAM_ERRORS as ex:
        bad = bad or {'exception': '%s: %s' % (type(ex).__name__, str(ex)[:200])}
    ctx.check(bad is None, 'C12.F', f, 'stop detection maximises the reward it documents: (j - i)^2 for runs of fixes that fit in a circle of the given diameter and last longer than the '
              'given duration, 0 otherwise, symmetric (%d interpreted tracks x durations)' % n, witness=bad, node=f.node, key='stop-reward')



RULES = [
    ('C12.X', rule_X, 'quick'),
    ('C12.F', rule_F, 'quick'),
    ('C12.B', rule_B, 'quick'),
    ('C12.S', rule_S, 'quick'),
    ('C12.C', rule_C, 'quick'),
    ('C12.K', weighed('C12.K', rule_K, ('C12.S',)), 'quick'),
]
MIN_OBLIGATIONS = 10
