"""C18 - dynamic time warping (tracklib/algo/comparison.py)."""
import ast

from ..alg import Rat
from ..loader import shape_error, anchor_error
from ..sx import Walker, State
from .. import orders
from ..orders import Table
from ..util import body_nodocstring, names_stored, unparse

MOD = 'tracklib.algo.comparison'

EXPLANATION = (
    'Static analysis by interpretation of the source (nothing imported or executed by CPython): for every pair of tracks of 1..3 fixes on two lattice points, 1..2 fixes on three points and five longer pairs in dimension 1, 2 and 3, and p in {1, 2, infinity}, the score must equal the minimum accumulated distance over the couplings, the returned pair lists must form a monotone coupling from the first to the last pair linking every observation with accumulated cost equal to the score and nb_links equal to its length, the fast variant must agree, and a matching whose first track is itself the result of a matching must not keep old links.')
ASSUMPTIONS = ["the weight function is monotone in its first argument (true of the three rules _p2weight builds)"]
TECHNIQUE = "abstract interpretation of match() in DTW, fast DTW and Frechet modes (with _p2weight, _dtw, _fdtw, _fillAF_dtw and the priority queue) by the checker's AST interpreter on ~360 pairs of small lattice tracks, against the minimum over all monotone couplings computed by the checker (bounded case domain)"

W = lambda a, b: ('w', a, b)      # abstract weight application


def vr(v):
    if isinstance(v, Rat):
        a = v.single_atom()
        return a if a is not None else repr(v)
    return repr(v)


def _forward_loops(f):
    """the doubly nested loop that fills interior cells: returns (outer, inner)"""
    cands = []
    for n in ast.walk(f.node):
        if isinstance(n, ast.For):
            inner = [m for m in n.body if isinstance(m, ast.For)]
            if len(inner) == 1 and any(isinstance(x, ast.Call) and getattr(x.func, 'id', None) == 'weight'
                                       for x in ast.walk(inner[0])):
                cands.append((n, inner[0]))
    if len(cands) != 1:
        raise shape_error('_dtw: cannot identify the forward double loop', f.loc())
    return cands[0]


def _resolve_range(f, it):
    """range(...) node behind an iterable that may be a name wrapped by a progress bar"""
    seen = 0
    while seen < 5:
        seen += 1
        if isinstance(it, ast.Call) and getattr(it.func, 'id', None) == 'range':
            return it
        if isinstance(it, ast.Call) and len(it.args) == 1 and 'progressbar' in unparse(it.func):
            it = it.args[0]
            continue
        if isinstance(it, ast.Name):
            defs = [s.value for s in ast.walk(f.node) if isinstance(s, ast.Assign) and len(s.targets) == 1
                    and isinstance(s.targets[0], ast.Name) and s.targets[0].id == it.id]
            plain = [d for d in defs if not (isinstance(d, ast.Call) and len(d.args) == 1 and
                                              isinstance(d.args[0], ast.Name) and d.args[0].id == it.id)]
            if len(plain) != 1:
                return None
            it = plain[0]
            continue
        return None
    return None


def _sizes(f, w, st):
    """names bound to track1.size() / track2.size()"""
    t1, t2 = f.params[0], f.params[1]
    n1 = n2 = None
    for k, v in st.env.items():
        if isinstance(v, Rat):
            a = v.single_atom()
            if a in ('%s.size()' % t1, 'len(%s)' % t1):
                n1 = k
            if a in ('%s.size()' % t2, 'len(%s)' % t2):
                n2 = k
    if n1 is None or n2 is None:
        raise shape_error('cannot find the names holding the two track sizes', f.loc())
    return n1, n2


def rule_M(ctx):
    """C18.M value uses the minimum predecessor and the back-pointer designates a minimal one"""
    f = ctx.prog.func(MOD + '._dtw')
    outer, inner = _forward_loops(f)
    iv, jv = inner.target.id, outer.target.id
    # which loop variable is the row (first index)?  read it from the store T[?, ?]
    stores = [n for n in ast.walk(inner) if isinstance(n, ast.Assign) and isinstance(n.targets[0], ast.Subscript)
              and isinstance(n.targets[0].slice, ast.Tuple)]
    if not stores:
        raise shape_error('_dtw inner loop stores nothing into a 2D table', f.loc(inner))
    tabs = {}
    for s in stores:
        tabs.setdefault(unparse(s.targets[0].value), []).append(s)
    bad_val, bad_ptr = [], []
    n = 0
    for (i0, j0) in ((5, 7), (11, 3)):
        for o in orders.weak_orderings(['ul', 'u', 'l']):
            rowv, colv = None, None
            env = {iv: i0 if iv != jv else i0, jv: j0}
            first = stores[0].targets[0].slice.elts
            # cell being written = (value of first index expr, value of second)
            ci = orders.ev(first[0], env)
            cj = orders.ev(first[1], env)
            T = None
            tables = {}
            for name in tabs:
                tables[name] = Table(name)
            # cost table = the one read in the body with shifted indices; seed the three predecessors
            reads = [x for x in ast.walk(inner) if isinstance(x, ast.Subscript) and isinstance(x.ctx, ast.Load)
                     and isinstance(x.slice, ast.Tuple) and unparse(x.value) in tabs]
            if not reads:
                raise shape_error('_dtw inner loop reads no predecessor cell', f.loc(inner))
            tname = unparse(reads[0].value)
            tables[tname].update({(ci - 1, cj - 1): o['ul'], (ci - 1, cj): o['u'], (ci, cj - 1): o['l']})
            dn = [x for x in ast.walk(inner) if isinstance(x, ast.Subscript) and isinstance(x.ctx, ast.Load)
                  and unparse(x.value) not in tabs and isinstance(x.slice, ast.Tuple)]
            for x in dn:
                tables.setdefault(unparse(x.value), Table(unparse(x.value)))
            env.update({k: v for k, v in tables.items() if k.isidentifier()})
            try:
                orders.run_block(inner.body, env, funcs={'weight': W})
            except orders.Unsupported as e:
                raise shape_error('_dtw forward step not interpretable: %s' % e, f.loc(inner))
            n += 1
            mn = min(o.values())
            val = tables[tname].get((ci, cj))
            okv = isinstance(val, tuple) and val[0] == 'w' and val[1] == mn and \
                isinstance(val[2], tuple) and val[2][1] == (ci, cj)
            if not okv and len(bad_val) < 3:
                bad_val.append({'ordering': orders.describe(o), 'stored value': repr(val),
                                'expected': 'weight(min = rank %d, D[%d,%d])' % (mn, ci, cj)})
            ptrs = [t for name, t in tables.items() if name != tname and (ci, cj) in t]
            if len(ptrs) != 1:
                raise shape_error('_dtw: expected exactly one back-pointer table written at the cell', f.loc(inner))
            m = ptrs[0][(ci, cj)]
            try:
                pi, pj = int(complex(m).real), int(complex(m).imag)
            except Exception:
                raise shape_error('_dtw: back-pointer is not a complex row+col*1j value: %r' % (m,), f.loc(inner))
            pred = {(ci - 1, cj - 1): 'ul', (ci - 1, cj): 'u', (ci, cj - 1): 'l'}.get((pi, pj))
            if (pred is None or o[pred] != mn) and len(bad_ptr) < 4:
                bad_ptr.append({'ordering of predecessor costs': orders.describe(o),
                                'cell': [ci, cj], 'back-pointer designates': [pi, pj],
                                'which is': pred or 'not a predecessor',
                                'but the minimum is carried by': sorted(k for k, v in o.items() if v == mn)})
    ctx.check(not bad_val, 'C18.R', f,
              'T[i,j] = weight(min(T[i-1,j-1], T[i-1,j], T[i,j-1]), D[i,j]) on all 13 orderings of the predecessors',
              witness={'counter-examples': bad_val}, node=inner, key='recurrence')
    ctx.check(not bad_ptr, 'C18.M', f,
              'the back-pointer stored at (i,j) designates a predecessor carrying the minimum, on all 13 orderings '
              '(x2 cells)', witness={'counter-examples': bad_ptr}, node=inner, key='backpointer')
    ctx.extra['orderings_evaluated'] = n


def rule_B(ctx):
    """C18.B borders, ranges, distance matrix pairing, backward walk"""
    f = ctx.prog.func(MOD + '._dtw')
    body = body_nodocstring(f)
    w = Walker(f, loop_mode='skip')
    outer, inner = _forward_loops(f)
    pre = [o for o in w.run(body[:body.index(outer)], State()) if o.kind == 'fall']
    if not pre:
        raise shape_error('_dtw prologue has no fall-through path', f.loc())
    st = pre[0].state
    n1, n2 = _sizes(f, w, st)
    N1, N2 = st.env[n1], st.env[n2]
    t1, t2 = f.params[0], f.params[1]
    # forward loop ranges: rows 1..N2-1, cols 1..N1-1 ; row index pairs with track2, col with track1
    r_out = _resolve_range(f, outer.iter)
    r_in = _resolve_range(f, inner.iter)
    if r_out is None or r_in is None:
        raise shape_error('_dtw forward loops are not range loops', f.loc(outer))
    store = [n for n in ast.walk(inner) if isinstance(n, ast.Assign) and isinstance(n.targets[0], ast.Subscript)
             and isinstance(n.targets[0].slice, ast.Tuple)][0]
    rowv = unparse(store.targets[0].slice.elts[0])
    colv = unparse(store.targets[0].slice.elts[1])
    rng = {outer.target.id: w.range_info(r_out, st), inner.target.id: w.range_info(r_in, st)}
    if rowv not in rng or colv not in rng:
        raise shape_error('_dtw: cell indices are not the loop variables', f.loc(store))
    for v, size, nm in ((rowv, N2, 'rows (track2)'), (colv, N1, 'columns (track1)')):
        lo, hi, stp = rng[v]
        ctx.check(w.rel.is_zero(lo - Rat.const(1)) and w.rel.is_zero(hi - size) and w.rel.is_zero(stp - Rat.const(1)),
                  'C18.B', f, 'interior %s run over 1 .. size-1' % nm,
                  witness={'range': [repr(lo), repr(hi), repr(stp)], 'size': repr(size)}, node=outer, key='range:' + nm)
    # distance matrix: D[i,j] = distance(track2[i], track1[j]) over the full index space
    dl = [s for s in body[:body.index(outer)] if isinstance(s, ast.For) and
          any(isinstance(m, ast.For) for m in s.body)]
    found = False
    for lo_ in dl:
        li = [m for m in lo_.body if isinstance(m, ast.For)][0]
        ws = Walker(f, loop_mode='skip')
        s2 = st.fork()
        s2.events = []
        s2.env[lo_.target.id] = Rat.atom(lo_.target.id)
        s2.env[li.target.id] = Rat.atom(li.target.id)
        outs = [o for o in ws.run(li.body, s2)]
        if len(outs) != 1:
            continue
        stores = [e for e in outs[0].state.events if e.kind == 'store']
        calls = [e for e in outs[0].state.events if e.kind == 'call' and e.name == '_distance']
        if len(stores) == 1 and len(calls) == 1:
            found = True
            e = stores[0]
            idx = [repr(x) for x in e.index] if isinstance(e.index, tuple) else [str(e.index)]
            args = [a.single_atom() if isinstance(a, Rat) else None for a in calls[0].args[:2]]
            want = {'%s.getObs(%s).position' % (t2, idx[0]), '%s.getObs(%s).position' % (t1, idx[1])} if len(idx) == 2 else set()
            r_o = ws.range_info(lo_.iter, st)
            r_i = ws.range_info(li.iter, st)
            sizes = {lo_.target.id: r_o, li.target.id: r_i}
            okr = len(idx) == 2 and idx[0] in sizes and idx[1] in sizes and sizes[idx[0]] and sizes[idx[1]] and \
                ws.rel.is_zero(sizes[idx[0]][0]) and ws.rel.is_zero(sizes[idx[0]][1] - N2) and \
                ws.rel.is_zero(sizes[idx[1]][0]) and ws.rel.is_zero(sizes[idx[1]][1] - N1)
            ctx.check(set(args) == want and okr, 'C18.R', f,
                      'D[i,j] is the distance between fix i of track2 (i < N2) and fix j of track1 (j < N1), all cells',
                      witness={'index': idx, 'distance arguments': args,
                               'ranges': {k: [repr(x) for x in v] if v else None for k, v in sizes.items()}},
                      node=lo_, key='dmatrix')
    if not found:
        raise shape_error('_dtw: distance matrix loop not found', f.loc())
    # borders: interpreted with a concrete index
    border_loops = [s for s in body[:body.index(outer)] if isinstance(s, ast.For) and
                    not any(isinstance(m, ast.For) for m in s.body) and
                    any(isinstance(x, ast.Call) and getattr(x.func, 'id', None) == 'weight' for x in ast.walk(s))]
    if len(border_loops) != 2:
        raise shape_error('_dtw: expected two border loops, found %d' % len(border_loops), f.loc())
    seen = set()
    for bl in border_loops:
        v = bl.target.id
        env = {v: 6}
        tables = {}
        for x in ast.walk(bl):
            if isinstance(x, ast.Subscript) and isinstance(x.slice, ast.Tuple):
                nm = unparse(x.value)
                if nm.isidentifier() and nm not in tables:
                    tables[nm] = Table(nm)
        env.update(tables)
        try:
            orders.run_block(bl.body, env, funcs={'weight': W})
        except orders.Unsupported as e:
            raise shape_error('_dtw border loop not interpretable: %s' % e, f.loc(bl))
        cells = {}
        for nm, t in tables.items():
            for k, val in t.items():
                cells.setdefault(k, {})[nm] = val
        if len(cells) != 1:
            raise shape_error('_dtw border loop writes several cells', f.loc(bl))
        (cell, vals), = cells.items()
        if cell == (6, 0):
            pred, kind, size = (5, 0), 'first column', N2
        elif cell == (0, 6):
            pred, kind, size = (0, 5), 'first row', N1
        else:
            ctx.violation('C18.B', f, 'border loops fill the first column (i,0) and the first row (0,j)',
                          {'cell written for loop value 6': list(cell)}, node=bl, key='bordercell')
            continue
        seen.add(kind)
        readn = {unparse(x.value) for x in ast.walk(bl) if isinstance(x, ast.Subscript) and
                 isinstance(x.ctx, ast.Load) and isinstance(x.slice, ast.Tuple)}
        tv = [x for nm_, x in vals.items() if nm_ in readn]
        pv = [x for nm_, x in vals.items() if nm_ not in readn]
        okv = len(tv) == 1 and isinstance(tv[0], tuple) and len(tv[0]) == 3 and tv[0][0] == 'w' and \
            isinstance(tv[0][1], tuple) and tv[0][1][1] == pred and \
            isinstance(tv[0][2], tuple) and tv[0][2][1] == cell
        ctx.check(okv, 'C18.B', f, '%s: T = weight(T[single predecessor], D[cell])' % kind,
                  witness={'stored': repr(tv), 'predecessor expected': list(pred)}, node=bl, key='borderval:' + kind)
        okp = False
        got = None
        if len(pv) == 1:
            try:
                got = (int(complex(pv[0]).real), int(complex(pv[0]).imag))
                okp = got == pred
            except Exception:
                pass
        ctx.check(okp, 'C18.B', f, '%s: back-pointer designates the single predecessor' % kind,
                  witness={'designates': got, 'expected': list(pred)}, node=bl, key='borderptr:' + kind)
        r = w.range_info(bl.iter, st)
        ctx.check(r is not None and w.rel.is_zero(r[0] - Rat.const(1)) and w.rel.is_zero(r[1] - size),
                  'C18.B', f, '%s: filled for 1 .. size-1' % kind,
                  witness={'range': [repr(x) for x in r] if r else None}, node=bl, key='borderrange:' + kind)
    if len(seen) != 2:
        raise shape_error('_dtw: both borders must be filled', f.loc())
    for fn in ('_dtw', '_fdtw'):
        _walk_check(ctx, ctx.prog.func(MOD + '.' + fn))
    _fill_check(ctx)


def _walk_check(ctx, f):
    """backward walk starts at (N2-1, N1-1) and runs until (0,0)"""
    body = body_nodocstring(f)
    w = Walker(f, loop_mode='skip')
    wl = None
    for s in body:
        if isinstance(s, ast.While) and any(isinstance(x, ast.Call) and getattr(x.func, 'attr', None) == 'append'
                                            for x in ast.walk(s)) and 'S' in {n.id for n in ast.walk(s.test) if isinstance(n, ast.Name)} | set():
            wl = s
    cands = [s for s in body if isinstance(s, ast.While) and
             any(isinstance(x, ast.Call) and getattr(x.func, 'attr', None) == 'append' for x in ast.walk(s))
             and not any(isinstance(x, ast.Call) and getattr(x.func, 'attr', None) == 'pop_smallest' for x in ast.walk(s))]
    if len(cands) != 1:
        raise shape_error('%s: cannot identify the backward walk' % f.name, f.loc())
    wl = cands[0]
    pre = [o for o in w.run(body[:body.index(wl)], State()) if o.kind == 'fall']
    st = pre[0].state
    n1, n2 = _sizes(f, w, st)
    # the list being extended
    app = [x for x in ast.walk(wl) if isinstance(x, ast.Call) and getattr(x.func, 'attr', None) == 'append'][0]
    lname = unparse(app.func.value)
    init = st.env.get(lname)
    ok = isinstance(init, list) and len(init) == 1 and isinstance(init[0], tuple) and len(init[0]) == 2 and \
        w.rel.is_zero(init[0][0] - (st.env[n2] - Rat.const(1))) and w.rel.is_zero(init[0][1] - (st.env[n1] - Rat.const(1)))
    ctx.check(ok, 'C18.B', f, 'the backward walk starts at the last cell (N2-1, N1-1)',
              witness={'initial list': repr(init)}, node=wl, key='walkstart')
    # loop test: continue while row > 0 or col > 0 -- evaluate on the 4 sign cases
    bad = []
    for r in (0, 1):
        for c in (0, 1):
            env = {lname: [(r, c)]}
            try:
                go = bool(orders.ev(wl.test, env))
            except orders.Unsupported as e:
                raise shape_error('walk test not interpretable: %s' % e, f.loc(wl))
            if go != (r > 0 or c > 0):
                bad.append({'current cell': [r, c], 'walk continues': go})
    ctx.check(not bad, 'C18.B', f, 'the walk continues exactly while the current cell is not (0,0)',
              witness={'wrong cases': bad}, node=wl, key='walkstop')


def _fill_check(ctx):
    f = ctx.prog.func(MOD + '._fillAF_dtw')
    body = body_nodocstring(f)
    w = Walker(f, loop_mode='skip')
    params = f.params
    out, t1, t2, S, T = params[:5]
    loops = [s for s in body if isinstance(s, ast.For)]
    main = [l for l in loops if any(isinstance(x, ast.Call) and getattr(x.func, 'id', None) == '_distance'
                                    for x in ast.walk(l))]
    if len(main) != 1:
        raise shape_error('_fillAF_dtw: main loop not found', f.loc())
    l = main[0]
    r = w.range_info(l.iter, State())
    iv = l.target.id if isinstance(l.target, ast.Name) else None
    if iv is None:
        raise shape_error('_fillAF_dtw: loop target is not a name', f.loc(l))
    # every walked cell visited once: range(len(S)-1, -1, -1), range(len(S)), or the cells themselves (in either direction)
    full = False
    elem = '%s[%s]' % (S, iv)
    if r is not None:
        lo, hi, stp = r
        n = Rat.atom('len(%s)' % S)
        full = (w.rel.is_zero(lo - (n - Rat.const(1))) and w.rel.is_zero(hi + Rat.const(1)) and
                w.rel.is_zero(stp + Rat.const(1))) or (w.rel.is_zero(lo) and w.rel.is_zero(hi - n) and
                                                        w.rel.is_zero(stp - Rat.const(1)))
    elif unparse(l.iter) in (S, 'reversed(%s)' % S, '%s[::-1]' % S):
        full = True
        elem = iv
    ctx.check(full, 'C18.B', f, 'every cell of the walked path becomes one link',
              witness={'iterates': unparse(l.iter)}, node=l, key='fillrange')
    st = State({iv: Rat.atom(iv)})
    outs = [o for o in w.run(l.body, st)]
    if len(outs) != 1:
        raise shape_error('_fillAF_dtw loop body is not single-path', f.loc(l))
    evs = outs[0].state.events
    dist = [e for e in evs if e.kind == 'call' and e.name == '_distance']
    want = {'%s.getObs(%s[1]).position' % (t1, elem), '%s.getObs(%s[0]).position' % (t2, elem)}
    got = {a.single_atom() for a in dist[0].args[:2] if isinstance(a, Rat)} if dist else set()
    ctx.check(got == want, 'C18.B', f,
              'a link couples fix S[k][1] of track1 with fix S[k][0] of track2 (column/row of the cost table)',
              witness={'distance arguments': sorted(x or '?' for x in got), 'expected': sorted(want)}, node=l, key='fillpair')
    links = [e for e in evs if e.kind == 'store' and e.name.endswith('.nb_links')]
    okl = len(links) == 1 and isinstance(links[0].value, Rat) and (
        (links[0].aug == 'Add' and w.rel.is_zero(links[0].value - Rat.const(1))) or
        (links[0].aug is None and w.rel.is_zero(links[0].value - Rat.atom(links[0].name) - Rat.const(1))))
    ctx.check(okl, 'C18.B', f, 'nb_links is incremented once per link', witness={'stores': [repr(e) for e in links]},
              node=l, key='nblinks')
    apps = [e for e in evs if e.kind == 'call' and e.name == 'append']
    okp = len(apps) == 1 and isinstance(apps[0].args[0], Rat) and \
        apps[0].args[0].single_atom() == '%s[0]' % elem and \
        "'pair', %s[1])" % elem in (apps[0].value or '').replace('"', "'")
    ctx.check(okp, 'C18.B', f, 'the pair list of fix S[k][1] receives S[k][0]',
              witness={'append': [repr(e) for e in apps]}, node=l, key='pairappend')
    # the pair lists start empty for every fix of the output: matching an output that already carries a "pair" feature (the result of an
    # earlier match) must not keep the old links; createAnalyticalFeature leaves an existing feature as it is
    wo = Walker(f, loop_mode='once')
    resets = []
    first_app = None
    for o in wo.run(body, State()):
        for e in o.state.events:
            if e.kind == 'call' and e.name in ('setObsAnalyticalFeature',) and len(e.args) == 3 and e.args[0] == 'pair' and e.args[2] == [] and e.loops:
                resets.append(e)
            if e.kind == 'call' and e.name == 'append' and first_app is None:
                first_app = e
    okreset = False
    for e in resets:
        lp = e.loops[-1]
        rr = lp.get('range')
        okreset = okreset or (rr is not None and vr(rr[0]) == '0' and vr(rr[1]) in ('len(%s)' % out, '%s.size()' % out) and vr(rr[2]) == '1' and
                              vr(e.recv) == out and vr(e.args[1]) == lp['node'].target.id and (first_app is None or e.seq < first_app.seq))
    cr = ctx.prog.func('tracklib.core.track.Track.createAnalyticalFeature')
    wc = Walker(cr, loop_mode='skip')
    keeps = any(o.kind == 'return' and any('hasAnalyticalFeature' in repr(c) and not repr(c).startswith('not ') for c, _ in o.state.conds) and
                not any(e.kind == 'store' for e in o.state.events) for o in wc.run(body_nodocstring(cr), State()))
    if keeps:
        ctx.check(okreset, 'C18.B', f, 'the pair list of every fix of the output is reset to an empty list before the links are appended',
                  witness={'resets found': [repr(e) for e in resets],
                           'why': 'the output may already carry a "pair" feature (match(match(a, b), c)): createAnalyticalFeature returns without touching an existing '
                                  'feature, so the links of the previous matching stay in the lists and the coupling no longer realises the score'},
                  node=f.node, key='pair-reset')
    # score = T[-1,-1]
    wt = Walker(f, loop_mode='skip')
    o_all = [o for o in wt.run(body, State())]
    sc = [e for o in o_all for e in o.state.events if e.kind == 'store' and e.name.endswith('.score')]
    oks = bool(sc) and all(isinstance(e.value, Rat) and e.value.single_atom() == '%s[-1, -1]' % T for e in sc)
    ctx.check(oks, 'C18.B', f, 'score is the last cell of the cost table T[-1,-1]',
              witness={'score stores': [repr(e) for e in sc]}, node=f.node, key='score')


def rule_P(ctx):
    """C18.P p -> accumulation rule"""
    f = ctx.prog.func(MOD + '._p2weight')
    p = f.params[0]
    lambdas = []
    for n in ast.walk(f.node):
        if isinstance(n, ast.If):
            for s in n.body:
                if isinstance(s, ast.Assign) and isinstance(s.value, ast.Lambda):
                    lambdas.append((n.test, s.value))
    if len(lambdas) < 3:
        raise shape_error('_p2weight: expected lambdas for numeric p, p == 0 and p == inf', f.loc())
    kinds = {}
    wq = Walker(f, loop_mode='skip')
    fbody = body_nodocstring(f)
    for test, lam in lambdas:
        t = unparse(test)
        holder = [n for n in ast.walk(f.node) if isinstance(n, ast.If) and n.test is test]
        stq = wq.state_before(fbody, holder[0]) if holder else None
        if stq is not None:
            try:
                t = t + ' | ' + repr(wq.cond(test, stq))       # the test with the temporaries it uses spelled out
            except Exception:
                pass
        if "float('inf')" in t or 'math.inf' in t or 'np.inf' in t:
            kinds['inf'] = lam
        elif isinstance(test, ast.Compare) and isinstance(test.ops[0], ast.Eq) and \
                isinstance(test.comparators[0], ast.Constant) and test.comparators[0].value == 0:
            kinds['zero'] = lam
        elif "'int'" in t or "'float'" in t or 'isinstance' in t or 'int in' in t or 'float in' in t:
            kinds['num'] = lam
    for k in ('num', 'zero', 'inf'):
        if k not in kinds:
            raise shape_error('_p2weight: branch for %s not found' % k, f.loc())
    a, b = [x.arg for x in kinds['num'].args.args]
    bad = []
    # numeric p: A + B**p ; evaluate on small integers with p = 1, 2, 3
    for pv in (1, 2, 3):
        for A in (0, 1, 5):
            for B in (0, 2, 3):
                got = orders.ev(kinds['num'].body, {a: A, b: B, p: pv})
                if got != A + B ** pv:
                    bad.append({'p': pv, 'A': A, 'B': B, 'got': got, 'expected': A + B ** pv})
    ctx.check(not bad, 'C18.P', f, 'numeric p: accumulated + distance**p', witness={'wrong': bad[:4]},
              node=kinds['num'], key='num')
    a, b = [x.arg for x in kinds['inf'].args.args]
    bad = []
    for A_, B_ in ((2, 5), (5, 2), (3, 3), (0, 4), (4, 0)):
        got = orders.ev(kinds['inf'].body, {a: A_, b: B_})
        if got != max(A_, B_):
            bad.append({'accumulated': A_, 'distance': B_, 'result': got, 'expected': max(A_, B_)})
    ctx.check(not bad, 'C18.P', f, 'p = infinity: max(accumulated, distance) (discrete Frechet)',
              witness={'wrong': bad}, node=kinds['inf'], key='inf')
    a, b = [x.arg for x in kinds['zero'].args.args]
    bad = []
    for A in (0, 2):
        for B in (0, 3):
            got = orders.ev(kinds['zero'].body, {a: A, b: B})
            if got != A + (1 if B != 0 else 0):
                bad.append({'A': A, 'B': B, 'got': got})
    ctx.check(not bad, 'C18.P', f, 'p = 0: accumulated + [distance != 0]', witness={'wrong': bad},
              node=kinds['zero'], key='zero')
    # precedence of the tests: the special cases p == 0 / inf must override the numeric rule (they come later)
    order = [k for test, lam in lambdas for k, v in kinds.items() if v is lam]
    ctx.check(order.index('num') < order.index('zero') and order.index('num') < order.index('inf'),
              'C18.P', f, 'p = 0 and p = infinity override the generic numeric rule',
              witness={'order of assignments': order}, node=f.node, key='order')
    # callers pass _p2weight(p)
    for fn, tgt in (('_dtw_matching', '_dtw'), ('_fdtw_matching', '_fdtw')):
        g = ctx.prog.func(MOD + '.' + fn)
        calls = [n for n in ast.walk(g.node) if isinstance(n, ast.Call) and getattr(n.func, 'id', None) == tgt]
        ok = len(calls) == 1 and len(calls[0].args) >= 4 and unparse(calls[0].args[0]) == g.params[0] and \
            unparse(calls[0].args[1]) == g.params[1] and unparse(calls[0].args[2]) == '_p2weight(%s)' % g.params[2] \
            and unparse(calls[0].args[3]) == g.params[3]
        ctx.check(ok, 'C18.P', g, '%s forwards (track1, track2, _p2weight(p), dim) to %s' % (fn, tgt),
                  witness={'call': unparse(calls[0]) if calls else None}, node=g.node, key='fwd:' + fn)


def rule_D(ctx):
    """C18.D ground distance per dimension"""
    f = ctx.prog.func(MOD + '._distance')
    p1, p2, dim = f.params[:3]
    w = Walker(f, loop_mode='skip')
    want = {1: ('abs(%s.U + -%s.U)' % (p1, p2), 'abs(-%s.U + %s.U)' % (p1, p2)),
            2: ('%s.distance2DTo(%s)' % (p1, p2), '%s.distance2DTo(%s)' % (p2, p1)),
            3: ('%s.distanceTo(%s)' % (p1, p2), '%s.distanceTo(%s)' % (p2, p1))}
    seen = {}
    for o in w.run(body_nodocstring(f), State()):
        if o.kind != 'return':
            continue
        for c, _ in o.state.conds:
            for cj in c.conjuncts():
                if cj.kind == 'cmp' and cj.op == '==' and isinstance(cj.a, Rat) and isinstance(cj.b, Rat):
                    d = cj.a - cj.b
                    if set(d.atoms()) == {dim} and d.ispoly():
                        k = -(d.n.coeff(dim, 0).constval()) / d.n.coeff(dim, 1).constval() if d.n.coeff(dim, 0).isconst() else None
                        if k in (1, 2, 3):
                            seen[int(k)] = (vr(o.value), o)
    if set(seen) != {1, 2, 3}:
        raise shape_error('_distance: arms for dim 1, 2, 3 not found (%s)' % sorted(seen), f.loc())
    names = {1: 'the absolute height difference', 2: 'the planar distance', 3: 'the 3-D distance (height included)'}
    for k in (1, 2, 3):
        got, o = seen[k]
        ctx.check(got in want[k], 'C18.D', f, 'with dim = %d the cost of a link is %s' % (k, names[k]),
                  witness={'returned': got, 'expected': want[k][0],
                           'why': 'every variant (DTW, FDTW, Frechet) then optimises another cost than the one asked for, consistently, so only the definition shows it'},
                  node=o.node, key='dim%d' % k)


def rule_F(ctx):
    """C18.F fast variant: successor moves, guards, co-update"""
    f = ctx.prog.func(MOD + '._fdtw')
    body = body_nodocstring(f)
    main = [s for s in body if isinstance(s, ast.While) and
            any(isinstance(x, ast.Call) and getattr(x.func, 'attr', None) == 'pop_smallest' for x in ast.walk(s))]
    if len(main) != 1:
        raise shape_error('_fdtw: main loop not found', f.loc())
    loop = main[0]
    w = Walker(f, loop_mode='skip')
    pre = [o for o in w.run(body[:body.index(loop)], State()) if o.kind == 'fall'][0].state
    n1, n2 = _sizes(f, w, pre)
    N1, N2 = Rat.atom(n1), Rat.atom(n2)
    t1, t2 = f.params[0], f.params[1]
    st = State()                         # every name stands for itself inside the loop body
    for pname in f.params[4:6]:
        st.env[pname] = Rat.const(0)     # verbose / plot off: bookkeeping branches are not part of the search
    # names defined before the loop from the two sizes (e.g. last_i = N2 - 1) keep their meaning inside it
    for k, v in pre.env.items():
        if isinstance(k, str) and k.isidentifier() and k not in (n1, n2) and isinstance(v, Rat) and v.atoms() and \
                set(v.atoms()) <= {vr(pre.env[n1]), vr(pre.env[n2])}:
            st.env[k] = v.subst(vr(pre.env[n1]), N1).subst(vr(pre.env[n2]), N2)
    for v in names_stored(loop.body):
        st.env[v] = Rat.atom(v + '@')
    outs = list(w.run(loop.body, st))
    moves = {}
    for o in outs:
        i = o.state.env.get('i')
        j = o.state.env.get('j')
        for e in o.state.events:
            if e.kind == 'call' and e.name == '_update_node':
                node = e.args[2]
                if not (isinstance(node, tuple) and len(node) == 2):
                    raise shape_error('_fdtw: successor is not a pair', f.loc(e.node))
                di = node[0] - i
                dj = node[1] - j
                if not (di.isconst() and dj.isconst()):
                    raise shape_error('_fdtw: successor is not current cell + constant', f.loc(e.node))
                mv = (int(di.constval()), int(dj.constval()))
                moves.setdefault(mv, []).append((e, o, i, j))
    ctx.check(set(moves) == {(1, 1), (0, 1), (1, 0)}, 'C18.F', f,
              'successors explored are exactly (i+1,j+1), (i,j+1), (i+1,j)',
              witness={'moves': sorted(moves)}, node=loop, key='moves')
    for mv, lst in sorted(moves.items()):
        e, o, i, j = lst[0]
        need = []
        if mv[0]:
            need.append(('row', i, N2))
        if mv[1]:
            need.append(('col', j, N1))
        conds = [cj for c, _ in e.conds for cj in c.conjuncts()]
        okg = True
        for nm, v, size in need:
            g = any(cj.kind == 'cmp' and cj.op == '<' and isinstance(cj.a, Rat) and isinstance(cj.b, Rat)
                    and w.rel.is_zero((cj.b - cj.a) - (size - Rat.const(1) - v)) for cj in conds) or \
                any(cj.kind == 'cmp' and cj.op == '<=' and isinstance(cj.a, Rat) and isinstance(cj.b, Rat)
                    and w.rel.is_zero((cj.b - cj.a) - (size - Rat.const(2) - v)) for cj in conds)
            okg = okg and g
        ctx.check(okg, 'C18.F', f, 'move %s is guarded by the bound of each index it advances' % (mv,),
                  witness={'guards': [repr(c) for c in conds]}, node=e.node, key='guard:%s' % (mv,))
        # cost = weight(T[i,j], distance(track2[i+di], track1[j+dj]))
        cost = e.args[3]
        ri, rj = repr(i + Rat.const(mv[0])), repr(j + Rat.const(mv[1]))
        dtxt1 = '_distance(%s.getObs(%s).position, %s.getObs(%s).position' % (t2, ri, t1, rj)
        dtxt2 = '_distance(%s.getObs(%s).position, %s.getObs(%s).position' % (t1, rj, t2, ri)
        ctxt = cost.single_atom() if isinstance(cost, Rat) else ''
        okc = ctxt is not None and ctxt.startswith('weight(T[%s, %s], ' % (repr(i), repr(j))) and \
            (dtxt1 in ctxt or dtxt2 in ctxt)
        ctx.check(okc, 'C18.F', f, 'move %s costs weight(T[i,j], distance of the successor pair)' % (mv,),
                  witness={'cost': ctxt}, node=e.node, key='cost:%s' % (mv,))
        oka = isinstance(e.args[6], Rat) and isinstance(o.state.env.get('node'), Rat) and \
            w.rel.is_zero(e.args[6] - o.state.env['node'])
        ctx.check(oka, 'C18.F', f, 'move %s records the popped cell as predecessor' % (mv,),
                  witness={'antecedent argument': repr(e.args[6])}, node=e.node, key='ant:%s' % (mv,))
    # stop when the last cell is popped
    brk = [o for o in outs if o.kind == 'break']
    okb = False
    for o in brk:
        cs = [cj for c, _ in o.state.conds for cj in c.conjuncts() if cj.kind == 'cmp' and cj.op == '==']
        i, j = o.state.env.get('i'), o.state.env.get('j')
        e1 = any(w.rel.is_zero((c.a - c.b)) for c in cs)
        keys = {repr(c.a - c.b) for c in cs} | {repr(c.b - c.a) for c in cs}
        if repr(i - (N2 - Rat.const(1))) in keys and repr(j - (N1 - Rat.const(1))) in keys:
            okb = True
        # after equality substitution the env values are the constants; accept via conds text
        txt = ' '.join(repr(c) for c in cs)
        if ('%s' % repr(N2 - Rat.const(1))) in txt and ('%s' % repr(N1 - Rat.const(1))) in txt:
            okb = True
    ctx.check(okb, 'C18.F', f, 'the search stops when the last cell (N2-1, N1-1) is popped',
              witness={'break paths': [[repr(c) for c, _ in o.state.conds] for o in brk]}, node=loop, key='stop')
    # _update_node co-update
    g = ctx.prog.func(MOD + '._update_node')
    wg = Walker(g, loop_mode='skip')
    F, T, node, new, V, A, ant = g.params[:7]
    gouts = list(wg.run(body_nodocstring(g), State()))
    upd = 0
    for o in gouts:
        stores = [e for e in o.state.events if e.kind == 'store' and isinstance(e.value, Rat) and
                  (wg.rel.is_zero(e.value - Rat.atom(new)) or wg.rel.is_zero(e.value - Rat.atom(ant)))]
        if not stores:
            continue
        upd += 1
        names = sorted(e.name for e in stores)
        vals = {e.name: e for e in stores}
        okc = names == sorted([A, F, T]) and wg.rel.is_zero(vals[F].value - Rat.atom(new)) and \
            wg.rel.is_zero(vals[T].value - Rat.atom(new)) and wg.rel.is_zero(vals[A].value - Rat.atom(ant)) and \
            isinstance(vals[T].index, tuple) and [repr(x) for x in vals[T].index] == ['%s[0]' % node, '%s[1]' % node] and \
            isinstance(vals[F].index, Rat) and vals[F].index.single_atom() == node and \
            isinstance(vals[A].index, Rat) and vals[A].index.single_atom() == node
        ctx.check(okc, 'C18.F', g, 'queue key, predecessor and table cell of the node are updated together to the new cost',
                  witness={'stores on this path': [repr(e) for e in stores]}, node=g.node, key='coupdate')
        gd = any(cj.kind == 'cmp' and cj.op in ('<', '<=') and isinstance(cj.a, Rat) and wg.rel.is_zero(cj.a - Rat.atom(new))
                 for c, _ in o.state.conds for cj in c.conjuncts())
        nv = any(repr(c).startswith('not ') and ' in %s' % V in repr(c) or (c.kind == 'not' and V in repr(c))
                 for c, _ in o.state.conds)
        ctx.check(gd, 'C18.F', g, 'the update happens only when the new cost improves the queued one',
                  witness={'path': [repr(c) for c, _ in o.state.conds]}, node=g.node, key='improve')
        ctx.check(nv, 'C18.F', g, 'settled cells are never updated',
                  witness={'path': [repr(c) for c, _ in o.state.conds]}, node=g.node, key='settled')
    if upd == 0:
        raise shape_error('_update_node: no updating path', g.loc())


def rule_G(ctx):
    """C18.G match() (DTW, fast DTW, Frechet) and compare(FRECHET) interpreted on pairs of small lattice tracks, against the minimum
    over all monotone couplings computed here: score, symmetry, the returned coupling (monotone, both ends, every observation linked,
    accumulated cost = score, nb_links), agreement of the fast variant"""
    import itertools
    import math
    from .. import absint, orders, npstub, netmodel
    CMPM = 'tracklib.algo.comparison'
    fm = ctx.prog.func(CMPM + '.match')
    fn = absint.funcs(ctx, CMPM, dict(npstub.stubs()))
    fn['progressbar'] = lambda x, **k: x
    netmodel.install_queue(ctx, fn)
    T = absint.classref(ctx, 'tracklib.core.track.Track', fn)
    mod = ctx.prog.module(CMPM)
    modes = {}
    for k in ('MODE_MATCHING_DTW', 'MODE_MATCHING_FDTW', 'MODE_MATCHING_FRECHET', 'MODE_COMPARISON_FRECHET'):
        v = mod.consts.get(k)
        if not isinstance(v, ast.Constant):
            raise anchor_error('constant %s not found' % k, CMPM)
        modes[k] = v.value
    INFP = float('inf')

    # positions are the repository's own ENUCoords objects (their distances and their tolerant equality are part of what is decided)
    EN = absint.classref(ctx, 'tracklib.core.obs_coords.ENUCoords', fn)
    fn['sqrt'], fn['hypot'] = math.sqrt, math.hypot

    def P(e, n, u=0.0):
        return EN(float(e), float(n), float(u))

    class _Canvas(orders.PyStub):
        """matplotlib.pyplot as seen by the plot=True paths: every drawing call is accepted and does nothing"""

        def __getattr__(self, name):
            if name.startswith('__') or name in ('repo_methods', 'repo_funcs', 'isa'):
                raise AttributeError(name)
            return lambda *a_, **k_: _Canvas()
    fn['plt'] = _Canvas()
    fn['__globals__']['plt'] = fn['plt']

    def O(pos):
        return absint.real_obs(ctx, fn, pos)          # the repository's own Obs

    def track_of(pts):
        return T([O(P(*p_)) for p_ in pts], 'u', 't')

    def dist(a, b, dim):
        if dim == 1:
            return abs(a[2] - b[2])
        if dim == 2:
            return math.hypot(a[0] - b[0], a[1] - b[1])
        return math.sqrt(sum((x - y) ** 2 for x, y in zip(a, b)))

    def optimum(t1, t2, p, dim):
        n1, n2 = len(t1), len(t2)
        acc = (lambda A, B: max(A, B)) if p == INFP else (lambda A, B: A + B ** p)
        tab = {}
        for i in range(n2):
            for j in range(n1):
                d = dist(t2[i], t1[j], dim)
                prev = [tab[q] for q in ((i - 1, j - 1), (i - 1, j), (i, j - 1)) if q in tab]
                tab[(i, j)] = acc(min(prev) if prev else 0.0, d)
        return tab[(n2 - 1, n1 - 1)]

    def close(a, b):
        # relative (scores of tracks given in very small units are tiny numbers): 1e-9 of the larger, exact zero matches only (almost) zero
        return isinstance(a, (int, float)) and not isinstance(a, bool) and abs(a - b) <= 1e-9 * max(abs(a), abs(b), 1e-290)
    found = {}
    n_cases = 0

    def one(t1, t2, mode_name, p, dim, want, chained=None, plot=False):
        nonlocal n_cases
        n_cases += 1
        p_arg = p
        if mode_name == 'MODE_MATCHING_FRECHET':
            p_arg, p = 1, INFP          # the Frechet mode ignores p: it is the p = infinity accumulation
        case = {'track 1': [list(q) for q in t1], 'track 2': [list(q) for q in t2], 'mode': mode_name, 'p': 'inf' if p == INFP else p, 'dim': dim}
        try:
            first = track_of(t1)
            if chained is not None:
                # track 1 is itself the result of an earlier matching (against another track): it already carries the link features
                case['track 1 is the result of an earlier match against'] = [list(q) for q in chained]
                first = fn['__name__']('match')(first, track_of(chained), modes[mode_name], p_arg, dim, False, False)
            if plot:
                case['plot'] = True
            res = fn['__name__']('match')(first, track_of(t2), modes[mode_name], p_arg, dim, False, plot)
        except orders.Unsupported as ex:
            raise shape_error('match not interpretable: %s' % ex, fm.loc())
        except orders.PROGRAM_ERRORS as ex:
            found.setdefault('fails', ('match does not fail', dict(case, exception='%s: %s' % (type(ex).__name__, str(ex)[:160]))))
            return None
        score = res.fields.get('score') if isinstance(res, orders.Obj) else None
        if not close(score, want):
            found.setdefault('score:' + mode_name, ('the score is the minimum accumulated distance over all monotone couplings from the first pair to the last pair',
                                                    dict(case, score=score, minimum=want)))
            return score
        try:
            pairs = res.call('getAnalyticalFeature', 'pair')
        except Exception as ex:
            pairs = None
        links = []
        okp = isinstance(pairs, list) and len(pairs) == len(t1) and all(isinstance(x, list) for x in pairs)
        if okp:
            for j, lst in enumerate(pairs):
                for i in lst:
                    links.append((i, j))
            okp = bool(links) and all(isinstance(i, int) and 0 <= i < len(t2) for i, _ in links)
        why = 'the pair lists give, for every observation of track 1, indices of observations of track 2'
        if okp:
            okp = links[0] == (0, 0) and links[-1] == (len(t2) - 1, len(t1) - 1)
            why = 'the coupling starts at the first pair and ends at the last pair'
        if okp:
            okp = all((b[0] - a[0], b[1] - a[1]) in ((1, 0), (0, 1), (1, 1)) for a, b in zip(links, links[1:]))
            why = 'successive links advance by one step in either or both tracks'
        if okp:
            okp = {i for i, _ in links} == set(range(len(t2))) and {j for _, j in links} == set(range(len(t1)))
            why = 'every observation of both tracks is linked at least once'
        if okp:
            acc = 0.0
            for (i, j) in links:
                d = dist(t2[i], t1[j], dim)
                acc = max(acc, d) if p == INFP else acc + d ** p
            okp = close(acc, score)
            why = 'the accumulated cost of the returned coupling equals the reported score'
        if okp:
            okp = res.fields.get('nb_links') == len(links)
            why = 'nb_links is the number of links of the coupling'
        if not okp:
            found.setdefault('coupling:' + mode_name, ('the matching returned is an optimal monotone coupling: ' + why, dict(case, **{'pair lists': pairs, 'score': score,
                                                                                                                                      'nb_links': res.fields.get('nb_links') if isinstance(res, orders.Obj) else None})))
        return score
    A_, B_, C_ = (0.0, 0.0, 0.0), (1.0, 0.0, 2.0), (0.0, 1.0, 5.0)
    fam = []
    # (a) all pairs of tracks of 1..3 fixes on two lattice points (every tie pattern between the three predecessors of a cell)
    two = [list(s_) for L in (1, 2, 3) for s_ in itertools.product((A_, B_), repeat=L)]
    for t1 in two:
        for t2 in two:
            fam.append((t1, t2, 2, ((('MODE_MATCHING_DTW', 1), ('MODE_MATCHING_DTW', INFP), ('MODE_MATCHING_FDTW', 1)))))
    # (b) all pairs of tracks of 1..2 fixes on three lattice points
    three = [list(s_) for L in ((1, 2, 3) if ctx.tier == 'thorough' else (1, 2)) for s_ in itertools.product((A_, B_, C_), repeat=L)]
    for t1 in three:
        for t2 in three:
            fam.append((t1, t2, 2, (('MODE_MATCHING_DTW', 2), ('MODE_MATCHING_FDTW', INFP), ('MODE_MATCHING_FRECHET', 1))))
    # (c) longer tracks, distances in dimension 1, 2 and 3, every mode and exponent
    extra = [([A_, B_, A_], [B_, A_, B_]), ([A_, B_, C_, A_], [A_, C_]), ([A_], [B_, C_, A_, B_]), ([A_, A_, B_, C_], [A_, B_, B_, C_]), ([C_, B_, A_], [A_, B_, C_])]
    # (... and vertical motion: consecutive fixes with the same easting and northing and another height)
    extra = extra + [([A_, (0.0, 0.0, 3.0), B_], [B_, A_, (0.0, 0.0, 4.0)]), ([B_, (1.0, 0.0, 7.0), (1.0, 0.0, -1.0)], [A_, C_])]
    for t1, t2 in extra:
        for dim in (1, 2, 3):
            fam.append((t1, t2, dim, (('MODE_MATCHING_DTW', 1), ('MODE_MATCHING_DTW', 2), ('MODE_MATCHING_DTW', INFP), ('MODE_MATCHING_FDTW', 1),
                                      ('MODE_MATCHING_FDTW', 2), ('MODE_MATCHING_FDTW', INFP), ('MODE_MATCHING_FRECHET', 1))))
    for (t1, t2, dim, runs) in fam:
        for mode_name, p in runs:
            one(t1, t2, mode_name, p, dim, optimum(t1, t2, INFP if mode_name == 'MODE_MATCHING_FRECHET' else p, dim))
    # (g) compare(track1, track2, MODE_COMPARISON_FRECHET): the discrete Frechet distance (the longest link of the best coupling), whichever
    #     track is given first
    cmp_ = fn['__name__']('compare')
    D_ = (0.0, 2.0, 1.0)
    for t1, t2 in extra + [([A_], [B_, D_, A_]), ([B_, D_, A_], [A_]), ([A_, B_], [B_, D_, A_, A_]), ([D_, A_], [A_, D_, D_]), ([A_], [A_])]:
        for dim in (2, 3):
            n_cases += 1
            want = optimum(t1, t2, INFP, dim)
            case = {'track 1': [list(p_) for p_ in t1], 'track 2': [list(p_) for p_ in t2], 'dimension': dim}
            try:
                got = cmp_(track_of(t1), track_of(t2), modes['MODE_COMPARISON_FRECHET'], 1, dim, False)
                got2 = cmp_(track_of(t2), track_of(t1), modes['MODE_COMPARISON_FRECHET'], 1, dim, False)
            except orders.Unsupported as ex:
                raise shape_error('compare not interpretable: %s' % ex, fm.loc())
            except orders.PROGRAM_ERRORS as ex:
                found.setdefault('compare-fails', ('compare(track1, track2, MODE_COMPARISON_FRECHET) does not fail', dict(case, exception='%s: %s' % (type(ex).__name__, str(ex)[:160]))))
                continue
            if not close(got, want) or not close(got2, want):
                found.setdefault('compare', ('compare(track1, track2, MODE_COMPARISON_FRECHET) is the discrete Frechet distance: the longest link of the best monotone coupling, whichever track comes first',
                                             dict(case, **{'returned': got, 'with the tracks swapped': got2, 'discrete Frechet distance': want})))
    # (d) chained matchings: the first track comes out of an earlier match()
    for mode_name, p in (('MODE_MATCHING_DTW', 1), ('MODE_MATCHING_FDTW', 1), ('MODE_MATCHING_FRECHET', 1)):
        t1, t2, t3 = [A_, B_, C_], [A_, A_, B_, C_], [C_, B_]
        one(t1, t3, mode_name, p, 2, optimum(t1, t3, INFP if mode_name == 'MODE_MATCHING_FRECHET' else p, 2), chained=t2)
    # (e) sub-millimetre scale: distinct fixes closer than the tolerance of the position equality still have their true distances
    S1, S2, S3 = (0.0, 0.0, 0.0), (0.00003, 0.00004, 0.00001), (0.00006, 0.0, 0.00002)
    for t1, t2 in (([S1, S2, S3], [S2, S1]), ([S1, S3], [S2, S2, S3]), ([S2], [S1, S3])):
        for mode_name, p in (('MODE_MATCHING_DTW', 1), ('MODE_MATCHING_FDTW', 1), ('MODE_MATCHING_FRECHET', 1), ('MODE_MATCHING_DTW', 2)):
            for dim in (2, 3):
                one(t1, t2, mode_name, p, dim, optimum(t1, t2, INFP if mode_name == 'MODE_MATCHING_FRECHET' else p, dim))
    # (f) near ties between the predecessors of a cell (a 100 m grid with millimetre jitter, doubled fixes one millimetre apart): the
    #     coupling returned is still one whose accumulated cost is the score
    G = lambda i, j, e=0.0: (100.0 * i + e, 100.0 * j - e, 0.0)
    near = [([G(0, 0), G(0, 0, 0.001), G(1, 0), G(1, 1, 0.002)], [G(0, 0, 0.0005), G(1, 0, 0.001), G(1, 1)]),
            ([G(0, 0), G(1, 0, 0.001), G(2, 0)], [G(0, 0, 0.002), G(0, 0, 0.0015), G(1, 0), G(2, 0, 0.001), G(2, 0)]),
            ([G(0, 0), G(1, 1, 0.001), G(1, 1), G(2, 2)], [G(0, 0, 0.001), G(1, 1, 0.0005), G(2, 2, 0.001)]),
            ([G(0, 0), G(0, 1), G(1, 1)], [G(0, 0, 0.001), G(1, 0, 0.001), G(1, 1, 0.001)])]
    # two parallel lines 50 m apart, one of them with fixes doubled one millimetre apart (accumulated costs of 100-300 m whose
    # alternatives differ by a millimetre)
    for k_ in (1, 2):
        for e_ in (0.001, -0.001, 0.0004):
            a_ = [(100.0 * i_, 0.0, 0.0) for i_ in range(4)]
            a_.insert(k_ + 1, (100.0 * k_ + e_, e_, 0.0))
            b_ = [(100.0 * i_, 50.0 + (0.0003 * i_), 0.0) for i_ in range(4)]
            near.append((a_, b_))
            near.append((b_, a_))
    # a 100 m lattice with millimetre jitter, tracks of 2-4 fixes drawn with a fixed generator (the same pairs on every run)
    import random as _random
    rnd = _random.Random(18)
    for _ in range(60 if ctx.tier == 'thorough' else 24):
        mk_ = lambda: [(rnd.randint(0, 3) * 100.0, rnd.randint(0, 2) * 100.0 + rnd.randint(0, 3) * 0.001, 0.0) for _k in range(rnd.randint(2, 4))]
        near.append((mk_(), mk_()))
    # the same jittered lattice in a very small unit (coordinates around 1e-6, differences of 1e-11): ties are ties at every scale
    near += [([tuple(c_ * 1e-8 for c_ in p_) for p_ in a_], [tuple(c_ * 1e-8 for c_ in p_) for p_ in b_]) for a_, b_ in near[-12:]]
    for t1, t2 in near:
        for mode_name, p in (('MODE_MATCHING_DTW', 1), ('MODE_MATCHING_DTW', 2), ('MODE_MATCHING_FDTW', 1), ('MODE_MATCHING_FRECHET', 1)):
            one(t1, t2, mode_name, p, 2, optimum(t1, t2, INFP if mode_name == 'MODE_MATCHING_FRECHET' else p, 2))
            one(t2, t1, mode_name, p, 2, optimum(t2, t1, INFP if mode_name == 'MODE_MATCHING_FRECHET' else p, 2))
    # (g) the plot option (drawing calls accepted and ignored): same score, same coupling - identical tracks (cost 0) included
    for t1, t2 in (([A_, B_, C_], [A_, B_, C_]), ([A_, B_], [A_, A_, B_]), ([A_, B_, C_, A_], [A_, C_])):
        for mode_name, p in (('MODE_MATCHING_DTW', 1), ('MODE_MATCHING_FDTW', 1), ('MODE_MATCHING_FDTW', 2), ('MODE_MATCHING_FRECHET', 1)):
            one(t1, t2, mode_name, p, 2, optimum(t1, t2, INFP if mode_name == 'MODE_MATCHING_FRECHET' else p, 2), plot=True)
    for key, (desc, wit) in sorted(found.items()):
        ctx.violation('C18.G', fm, desc, wit, node=fm.node, key=key)
    for mode_name in ('MODE_MATCHING_DTW', 'MODE_MATCHING_FDTW', 'MODE_MATCHING_FRECHET'):
        if not any(k.endswith(mode_name) for k in found) and 'fails' not in found:
            ctx.ok('C18.G', fm, 'match(%s): score = minimum over couplings (hence symmetric), returned coupling optimal and complete' % mode_name, node=fm.node)
    ctx.extra['C18.G cases'] = n_cases


RULES = [
    ('C18.G', rule_G, 'quick'),
]
MIN_OBLIGATIONS = 3
