"""C15 - kernel smoothing (Filter.execute, Kernel.toSlidingWindow, filter_seq)."""
import ast

from ..alg import Rat
from ..loader import shape_error, anchor_error
from ..sx import Walker, State
from ..util import body_nodocstring, names_stored, unparse

OPS = 'tracklib.core.operators'
KER = 'tracklib.core.kernel.Kernel'
FIL = 'tracklib.algo.filtering'

EXPLANATION = (
    "Static analysis of Filter.execute / Kernel.toSlidingWindow / filter_seq: on every path of the window loop the "
    "numerator and the normaliser are incremented together, with the same weight, and skipped together by the "
    "three guards (before the track, after the track, NaN); the window offsets are {-D..D} with D = N//2 and the "
    "range guards test the index that is read; even kernels are rejected; boundary copy ranges; list kernels are "
    "divided by their sum; a kernel object's window has odd length 2*int(support)+1, abscissas symmetric about 0 "
    "and every value divided by the sum of all values; filter_seq hands the caller's kernel object (with its "
    "boundary flag) to the operator and writes each coordinate from the feature just filtered.")
ASSUMPTIONS = ["non-negative weights (precondition of the range clause)"]
TECHNIQUE = "co-update on loop-body paths (F6), affine window offsets (F3), polynomial symmetry identity (F2)"


def vr(v):
    if isinstance(v, Rat):
        a = v.single_atom()
        return a if a is not None else repr(v)
    return repr(v)


def _filter(ctx):
    f = ctx.prog.func(OPS + '.Filter.execute')
    body = body_nodocstring(f)
    main = None
    for s in body:
        if isinstance(s, ast.For):
            inner = [x for x in s.body if isinstance(x, ast.For)]
            if len(inner) == 1:
                main = (s, inner[0])
    if main is None:
        raise shape_error('Filter.execute: window double loop not found', f.loc())
    return f, body, main


def rule_N(ctx):
    """C15.N numerator and normaliser co-updated; C15.W window; guards"""
    f, body, (lo, li) = _filter(ctx)
    tr, afin, kern, afout = f.params[1:5]
    iv, jv = lo.target.id, li.target.id
    w = Walker(f, loop_mode='skip')
    pre_i = lo.body[:lo.body.index(li)]
    st = State({iv: Rat.atom(iv)})
    sp = [o for o in w.run(pre_i, st) if o.kind == 'fall']
    if len(sp) != 1:
        raise shape_error('Filter.execute: outer body prologue', f.loc(lo))
    stj = sp[0].state.fork()
    assigned = sorted(names_stored(li.body))
    for v in assigned:
        stj.env[v] = Rat.atom(v + '@')
    stj.env[jv] = Rat.atom(jv)
    stj.events = []
    outs = list(w.run(li.body, stj))
    n_acc = 0
    idx_seen = None
    for o in outs:
        acc = []
        nrm = []
        for e in o.state.events:
            if e.kind == 'store' and vr(e.index) == iv:
                if e.aug == 'Add':
                    acc.append((e, e.value))
                elif e.aug is None and isinstance(e.value, Rat):
                    prev = Rat.atom('%s[%s]' % (e.name, iv))
                    if prev.single_atom() in e.value.atoms():
                        acc.append((e, e.value - prev))
            if e.kind == 'assign' and e.name in assigned and isinstance(e.value, Rat) and (e.name + '@') in e.value.atoms():
                inc = e.value - Rat.atom(e.name + '@')
                if not w.rel.is_zero(inc):
                    nrm.append((e, inc))
        pathtxt = [repr(c) for c, _ in o.state.conds]
        if not acc and not nrm:
            continue
        n_acc += 1
        if not acc or not nrm:
            ctx.violation('C15.N', f, 'the weighted sum and its normaliser are incremented on the same paths',
                          {'weighted sum incremented': bool(acc), 'normaliser incremented': bool(nrm), 'path conditions': pathtxt,
                           'why': 'a sample that is skipped (outside the track or NaN) must not contribute its weight to the normaliser, and vice versa'},
                          node=li, key='coupdate:%s:%s' % (bool(acc), bool(nrm)))
            continue
        (a, ainc), (n, winc) = acc[0], nrm[0]
        nname = n.name
        # value read
        reads = [e for e in o.state.events if e.kind == 'call' and e.name == 'getObsAnalyticalFeature']
        if len(reads) != 1:
            raise shape_error('Filter.execute: expected one sample read per path', f.loc(li))
        val = Rat.atom(reads[0].value)
        ctx.check(isinstance(ainc, Rat) and w.rel.is_zero(ainc - val * winc), 'C15.N', f,
                  'numerator += sample * w and normaliser += w with the same weight w',
                  witness={'numerator increment': vr(ainc), 'normaliser increment': vr(winc), 'sample': vr(val)}, node=a.node, key='same-weight')
        ctx.check(vr(winc) == '%s[%s]' % (vr(stj.env.get(kern, Rat.atom(kern))), jv) or vr(winc).endswith('[%s]' % jv), 'C15.N', f,
                  'the weight is the kernel value of the window position j', witness={'weight': vr(winc)}, node=n.node, key='weight-j')
        ctx.check(vr(a.index) == iv and vr(reads[0].args[0]) == afin, 'C15.N', f,
                  'output index i accumulates samples of the input feature', witness={'store index': vr(a.index)}, node=a.node, key='out-index')
        idx = reads[0].args[1]
        idx_seen = idx
        # guards on the same index
        conds = [cj for c, _ in o.state.conds for cj in c.conjuncts()]
        size = Rat.atom('%s.size()' % tr)
        lowg = any(cj.kind == 'cmp' and cj.op == '<=' and w.rel.is_zero(cj.a) and w.rel.is_zero(cj.b - idx) for cj in conds if isinstance(cj.a, Rat) and isinstance(cj.b, Rat))
        upg = any(cj.kind == 'cmp' and cj.op == '<' and w.rel.is_zero(cj.a - idx) and w.rel.is_zero(cj.b - size) for cj in conds if isinstance(cj.a, Rat) and isinstance(cj.b, Rat))
        nang = any(('isnan(%s)' % reads[0].value) in repr(c) and repr(c).startswith('not ') for c, _ in o.state.conds)
        ctx.check(lowg and upg and nang, 'C15.N', f,
                  'a sample enters only if its index is inside the track (0 <= index < size) and its value is not NaN',
                  witness={'index read': vr(idx), 'path conditions': pathtxt}, node=li, key='guards')
    if n_acc == 0 or idx_seen is None:
        raise shape_error('Filter.execute: no accumulating path', f.loc(li))
    # window: offsets symmetric, half width D = N // 2
    Dname = Nname = None
    for s_ in body[:body.index(lo)]:
        if isinstance(s_, ast.Assign) and isinstance(s_.targets[0], ast.Name):
            v = w.ex(s_.value, State())
            t = vr(v)
            if t.startswith('int(1/2*') or t.startswith('floor(1/2*'):
                Dname, Nname = s_.targets[0].id, t[t.index('*') + 1:-1]
    if Dname is None:
        raise shape_error('Filter.execute: half width D = int(N/2) not found', f.loc())
    rj = w.range_info(li.iter, State())
    ctx.check(rj is not None and vr(rj[0]) == '0' and vr(rj[1]) == Nname and vr(rj[2]) == '1', 'C15.W', f,
              'the window loop visits every kernel position 0..N-1', witness={'range': unparse(li.iter)}, node=li, key='jrange')
    # index(j) - i at j = 0 and j = N-1 with N = 2D+1
    D = Rat.atom('D#')
    e0 = w.ex(_index_node(li, afin), State({iv: Rat.atom(iv), jv: Rat.const(0), Dname: D}))
    e1 = w.ex(_index_node(li, afin), State({iv: Rat.atom(iv), jv: D * Rat.const(2), Dname: D}))
    c0, c1 = e0 - Rat.atom(iv), e1 - Rat.atom(iv)
    ctx.check(w.rel.is_zero(c0 + c1) and (w.rel.is_zero(c0 - D) or w.rel.is_zero(c0 + D)), 'C15.W', f,
              'the window is centred: offsets run from -D to +D with D = N // 2',
              witness={'offset at j=0': vr(c0), 'offset at j=N-1': vr(c1)}, node=li, key='centred')
    # normalisation after the window loop and reset before
    post = lo.body[lo.body.index(li) + 1:]
    stp = State({iv: Rat.atom(iv)})
    po = [o for o in w.run(post, stp) if o.kind == 'fall']
    divs = [e for o in po for e in o.state.events if e.kind == 'store' and e.aug == 'Div']
    ctx.check(len(divs) == 1 and vr(divs[0].index) == iv and vr(divs[0].value) == nname, 'C15.N', f,
              'the accumulated sum of output i is divided by the accumulated weights', witness={'stores': [repr(e) for e in divs]},
              node=lo, key='divide')
    n0 = sp[0].state.env.get(nname)
    ctx.check(isinstance(n0, Rat) and n0.isconst() and n0.constval() == 0, 'C15.N', f,
              'the normaliser restarts from 0 for every output index', witness={'initial': vr(n0)}, node=lo, key='reset')


def _index_node(li, afin):
    for n in ast.walk(li):
        if isinstance(n, ast.Call) and getattr(n.func, 'attr', None) == 'getObsAnalyticalFeature' and len(n.args) == 2:
            return n.args[1]
    raise shape_error('sample read not found')


def rule_E(ctx):
    """C15.E even kernels rejected; C15.B boundary copy; C15.L list kernels normalised"""
    f, body, (lo, li) = _filter(ctx)
    tr, afin, kern, afout = f.params[1:5]
    w = Walker(f, loop_mode='once')
    outs = list(w.run(body, State()))
    raises = [o for o in outs if o.kind == 'raise']
    ok = bool(raises) and all(any('% 2) == 0' in repr(c) for c, _ in o.state.conds) for o in raises)
    rets = [o for o in outs if o.kind == 'return']
    ok = ok and all(any('% 2) != 0' in repr(c) or 'Dirac' in repr(c) for c, _ in o.state.conds) for o in rets)
    ctx.check(ok, 'C15.E', f, 'a kernel with an even number of weights is rejected (and only such a kernel)',
              witness={'raise paths': [[repr(c) for c, _ in o.state.conds][-2:] for o in raises]}, node=f.node, key='even')
    # boundary copy
    bnd = [s for s in body if isinstance(s, ast.If) and 'boundary' in unparse(s.test)]
    if len(bnd) != 1 or not isinstance(bnd[0].test, ast.UnaryOp):
        raise shape_error('Filter.execute: `if not boundary` block not found', f.loc())
    bl = [s for s in bnd[0].body if isinstance(s, ast.For)]
    wb = Walker(f, loop_mode='skip')
    size = Rat.atom('%s.size()' % tr)
    D = Rat.atom('D')
    got = []
    for l in bl:
        r = wb.range_info(l.iter, State())
        bo = [o for o in wb.run(l.body, State({l.target.id: Rat.atom(l.target.id)})) if o.kind == 'fall']
        sts = [e for o in bo for e in o.state.events if e.kind == 'store']
        okc = len(sts) == 1 and vr(sts[0].index) == l.target.id and \
            vr(sts[0].value) == '%s.getObsAnalyticalFeature(%s, %s)' % (tr, afin, l.target.id)
        got.append((r, okc))
    head = any(r is not None and vr(r[0]) == '0' and vr(r[1]) == 'D' and okc for r, okc in got)
    tail = any(r is not None and wb.rel.is_zero(r[0] - (size - D)) and wb.rel.is_zero(r[1] - size) and okc for r, okc in got)
    ctx.check(head and tail, 'C15.B', f,
              'when boundaries are not filtered the first D and the last D outputs are the inputs at the same index',
              witness={'ranges': [[vr(x) for x in r] if r else None for r, _ in got]}, node=bnd[0], key='boundary')
    # the flag comes from the kernel object
    txt = unparse(f.node)
    ctx.recognise('boundary = %s.filterBoundary()' % kern in txt and 'boundary = False' in txt, 'C15.B', f,
              'the boundary setting is read from the kernel object (False for plain weight lists)', witness={}, node=f.node, key='flag')
    # list kernels: divided by their sum
    okl = 'norm = np.sum(np.array(%s))' % kern in txt
    lst = [s for s in ast.walk(f.node) if isinstance(s, ast.For) and 'len(%s)' % kern in unparse(s.iter)]
    okd = False
    for l in lst:
        for s in l.body:
            if isinstance(s, ast.AugAssign) and isinstance(s.op, ast.Div) and unparse(s.target) == '%s[%s]' % (kern, l.target.id) \
                    and unparse(s.value) == 'norm' and unparse(l.iter) == 'range(len(%s))' % kern:
                okd = True
    ctx.check(okl and okd, 'C15.L', f, 'a list of weights is normalised: every weight divided by the sum of all weights',
              witness={}, node=f.node, key='listnorm')


def rule_K(ctx):
    """C15.K sliding window of a kernel object"""
    f = ctx.prog.func(KER + '.toSlidingWindow')
    body = body_nodocstring(f)
    loops = [s for s in body if isinstance(s, ast.For)]
    if len(loops) != 2:
        raise shape_error('toSlidingWindow: expected a sampling loop and a normalising loop', f.loc())
    w = Walker(f, loop_mode='skip')
    pre = [o for o in w.run(body[:body.index(loops[0])], State()) if o.kind == 'fall']
    if not pre:
        raise shape_error('toSlidingWindow prologue', f.loc())
    st = pre[0].state
    r0 = w.range_info(loops[0].iter, st)
    size = r0[1] if r0 else None
    isup = Rat.atom('int(self.support)')
    ctx.check(size is not None and w.rel.is_zero(size - (isup * Rat.const(2) + Rat.const(1))) and vr(r0[0]) == '0', 'C15.K', f,
              'the window has odd length 2*int(support)+1 and every position is sampled', witness={'size': vr(size)}, node=loops[0], key='size')
    iv = loops[0].target.id
    # abscissa symmetric: x(i) + x(size-1-i) == 0
    def xat(ival):
        s2 = st.fork()
        s2.events = []
        for v in names_stored(loops[0].body):
            s2.env[v] = Rat.atom(v + '@')
        s2.env[iv] = ival
        o = [o_ for o_ in w.run(loops[0].body, s2) if o_.kind == 'fall']
        if len(o) != 1:
            raise shape_error('sampling loop body is not straight-line', f.loc(loops[0]))
        evs = [e for e in o[0].state.events if e.kind == 'call' and e.name == 'evaluate']
        if len(evs) != 1:
            raise shape_error('sampling loop does not evaluate the kernel once', f.loc(loops[0]))
        return evs[0].args[0], o[0]
    i_ = Rat.atom(iv)
    xa, oa = xat(i_)
    xb, _ = xat(size - Rat.const(1) - i_)
    ctx.check(isinstance(xa, Rat) and isinstance(xb, Rat) and w.rel.is_zero(xa + xb), 'C15.K', f,
              'sample abscissas are symmetric about 0: x(i) + x(size-1-i) == 0 (for every support, integral or not)',
              witness={'x(i)': vr(xa), 'x(size-1-i)': vr(xb), 'sum': vr(xa + xb)}, node=loops[0], key='symmetric')
    sts = [e for e in oa.state.events if e.kind == 'store']
    nrm = [e for e in oa.state.events if e.kind == 'assign' and e.aug == 'Add']
    okn = len(sts) == 1 and vr(sts[0].index) == iv and len(nrm) == 1 and \
        w.rel.is_zero(nrm[0].value - Rat.atom(nrm[0].name + '@') - Rat.atom('%s[%s]' % (sts[0].name, iv)) ) or \
        (len(sts) == 1 and len(nrm) == 1 and w.rel.is_zero(nrm[0].value - Rat.atom(nrm[0].name + '@') - sts[0].value))
    ctx.check(bool(okn), 'C15.K', f, 'the normaliser accumulates exactly the sampled values', witness={'stores': [repr(e) for e in sts + nrm]},
              node=loops[0], key='accum')
    n0 = st.env.get(nrm[0].name) if nrm else None
    ctx.check(isinstance(n0, Rat) and n0.isconst() and n0.constval() == 0, 'C15.K', f, 'the normaliser starts at 0',
              witness={'initial': vr(n0)}, node=loops[0], key='norm0')
    r1 = w.range_info(loops[1].iter, st)
    s3 = State({loops[1].target.id: Rat.atom(loops[1].target.id)})
    o1 = [o_ for o_ in w.run(loops[1].body, s3) if o_.kind == 'fall']
    dv = [e for o_ in o1 for e in o_.state.events if e.kind == 'store' and e.aug == 'Div']
    ctx.check(r1 is not None and w.rel.is_zero(r1[1] - size) and vr(r1[0]) == '0' and len(dv) == 1 and
              vr(dv[0].index) == loops[1].target.id and nrm and vr(dv[0].value) == nrm[0].name, 'C15.K', f,
              'every window value is divided by the sum of all values (the window sums to 1)',
              witness={'range': unparse(loops[1].iter), 'stores': [repr(e) for e in dv]}, node=loops[1], key='normalise')


def rule_S(ctx):
    """C15.S filter_seq wiring"""
    f = ctx.prog.func(FIL + '.filter_seq')
    tr, kern, dim = f.params[:3]
    loops = [s for s in body_nodocstring(f) if isinstance(s, ast.For)]
    if len(loops) != 1:
        raise shape_error('filter_seq: loop over dimensions not found', f.loc())
    lo = loops[0]
    av = lo.target.id
    # the kernel handed to the operator is the caller's kernel (or the box list built from an int)
    w = Walker(f, loop_mode='skip')
    pre = list(w.run(body_nodocstring(f)[:body_nodocstring(f).index(lo)], State()))
    for o in pre:
        if o.kind != 'fall':
            continue
        kv = o.state.env.get(kern, Rat.atom(kern))
        pathtxt = [repr(c) for c, _ in o.state.conds]
        ok = (isinstance(kv, Rat) and kv.single_atom() == kern) or (isinstance(kv, Rat) and 'Mult' in vr(kv) and '[1]' in vr(kv)) or \
            (isinstance(kv, list))
        ctx.check(ok, 'C15.S', f,
                  'the operator receives the caller\'s kernel itself, so a kernel object keeps its boundary setting',
                  witness={'kernel passed on this path': vr(kv), 'path conditions': pathtxt,
                           'why': 'a pre-computed window list carries no filterBoundary flag: boundaries are then always copied'},
                  node=lo, key='kernel:' + vr(kv)[:40])
    for letter, setter in (('x', 'setXFromAnalyticalFeature'), ('y', 'setYFromAnalyticalFeature'), ('z', 'setZFromAnalyticalFeature')):
        st = State({av: letter})
        outs = [o for o in w.run(lo.body, st) if o.kind == 'fall']
        if len(outs) != 1:
            raise shape_error('filter_seq body not single-path for %s' % letter, f.loc(lo))
        evs = outs[0].state.events
        ops = [e for e in evs if e.kind == 'call' and e.name == 'operate']
        sets = [e for e in evs if e.kind == 'call' and e.name.startswith('set') and e.name.endswith('FromAnalyticalFeature')]
        ok = len(ops) == 1 and len(sets) == 1 and sets[0].name == setter and ops[0].args[1] == letter and \
            vr(ops[0].args[0]) == 'Operator.FILTER' and sets[0].args[0] == ops[0].args[3] and ops[0].seq < sets[0].seq
        ctx.check(ok, 'C15.S', f, 'coordinate %s is filtered into a scratch feature and written back with %s from that same feature' % (letter, setter),
                  witness={'operate': [vr(a) for a in ops[0].args] if ops else None, 'setters': [e.name for e in sets]}, node=lo, key='coord:' + letter)
    st = State({av: 'speed'})
    outs = [o for o in w.run(lo.body, st) if o.kind == 'fall']
    ops = [e for o in outs for e in o.state.events if e.kind == 'call' and e.name == 'operate']
    ctx.check(len(ops) == 1 and ops[0].args[1] == 'speed' and ops[0].args[3] == 'speed', 'C15.S', f,
              'a named feature is filtered in place', witness={}, node=lo, key='feature')


RULES = [
    ('C15.N', rule_N, 'quick'),
    ('C15.E', rule_E, 'quick'),
    ('C15.K', rule_K, 'quick'),
    ('C15.S', rule_S, 'quick'),
]
MIN_OBLIGATIONS = 15
