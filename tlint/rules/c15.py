"""C15 - kernel smoothing (Filter.execute, Kernel.toSlidingWindow, filter_seq)."""
import ast

from ..alg import Rat
from ..loader import shape_error, anchor_error
from ..sx import Walker, State
from ..util import body_nodocstring, names_stored, unparse

OPS = 'tracklib.core.operators'
KER = 'tracklib.core.kernel.Kernel'
FIL = 'tracklib.algo.filtering'

EXPLANATION = (
    "Static analysis by interpretation of the source (nothing imported or executed by CPython): outputs must equal the weighted mean over the in-track non-NaN samples of the window (weight j with sample i + D - j), with unfiltered boundaries copied; kernel windows must be odd, symmetric, non-negative and sum to 1; filtering into the input feature must give the same values; an even kernel must be rejected; filter_seq must leave the smoothed coordinates in the track it was given, honouring the kernel's boundary flag.")
ASSUMPTIONS = ["non-negative weights (precondition of the range clause)"]
TECHNIQUE = "abstract interpretation of Filter.execute, the Kernel classes (toSlidingWindow) and filter_seq by the checker's AST interpreter on signal / kernel configurations (lists and nine built-in kernels, both boundary settings, NaN patterns, in-place output, even kernels, NaN samples held as numpy scalars, a history of filter_seq calls with the default dimensions), against the renormalised weighted mean computed by the checker (bounded case domain)"


def vr(v):
    if isinstance(v, Rat):
        a = v.single_atom()
        return a if a is not None else repr(v)
    return repr(v)


def _filter(ctx):
    f = ctx.prog.func(OPS + '.Filter.execute')
    body = body_nodocstring(f)
    main = None
    for s in body:
        if isinstance(s, ast.For):
            inner = [x for x in s.body if isinstance(x, ast.For)]
            if len(inner) == 1:
                main = (s, inner[0])
    if main is None:
        raise shape_error('Filter.execute: window double loop not found', f.loc())
    return f, body, main


def rule_N(ctx):
    """C15.N numerator and normaliser co-updated; C15.W window; guards"""
    f, body, (lo, li) = _filter(ctx)
    tr, afin, kern, afout = f.params[1:5]
    iv, jv = lo.target.id, li.target.id
    w = Walker(f, loop_mode='skip')
    pre_i = lo.body[:lo.body.index(li)]
    st = State({iv: Rat.atom(iv)})
    sp = [o for o in w.run(pre_i, st) if o.kind == 'fall']
    if len(sp) != 1:
        raise shape_error('Filter.execute: outer body prologue', f.loc(lo))
    stj = sp[0].state.fork()
    assigned = sorted(names_stored(li.body))
    for v in assigned:
        stj.env[v] = Rat.atom(v + '@')
    stj.env[jv] = Rat.atom(jv)
    stj.events = []
    outs = list(w.run(li.body, stj))
    n_acc = 0
    idx_seen = None
    for o in outs:
        acc = []
        nrm = []
        for e in o.state.events:
            if e.kind == 'store' and vr(e.index) == iv:
                if e.aug == 'Add':
                    acc.append((e, e.value))
                elif e.aug is None and isinstance(e.value, Rat):
                    prev = Rat.atom('%s[%s]' % (e.name, iv))
                    if prev.single_atom() in e.value.atoms():
                        acc.append((e, e.value - prev))
            if e.kind == 'assign' and e.name in assigned and isinstance(e.value, Rat) and (e.name + '@') in e.value.atoms():
                inc = e.value - Rat.atom(e.name + '@')
                if not w.rel.is_zero(inc):
                    nrm.append((e, inc))
        pathtxt = [repr(c) for c, _ in o.state.conds]
        if not acc and not nrm:
            continue
        n_acc += 1
        if not acc or not nrm:
            ctx.violation('C15.N', f, 'the weighted sum and its normaliser are incremented on the same paths',
                          {'weighted sum incremented': bool(acc), 'normaliser incremented': bool(nrm), 'path conditions': pathtxt,
                           'why': 'a sample that is skipped (outside the track or NaN) must not contribute its weight to the normaliser, and vice versa'},
                          node=li, key='coupdate:%s:%s' % (bool(acc), bool(nrm)))
            continue
        (a, ainc), (n, winc) = acc[0], nrm[0]
        nname = n.name
        # value read
        reads = [e for e in o.state.events if e.kind == 'call' and e.name == 'getObsAnalyticalFeature']
        if len(reads) != 1:
            raise shape_error('Filter.execute: expected one sample read per path', f.loc(li))
        val = Rat.atom(reads[0].value)
        ctx.check(isinstance(ainc, Rat) and w.rel.is_zero(ainc - val * winc), 'C15.N', f,
                  'numerator += sample * w and normaliser += w with the same weight w',
                  witness={'numerator increment': vr(ainc), 'normaliser increment': vr(winc), 'sample': vr(val)}, node=a.node, key='same-weight')
        ctx.check(vr(winc) == '%s[%s]' % (vr(stj.env.get(kern, Rat.atom(kern))), jv) or vr(winc).endswith('[%s]' % jv), 'C15.N', f,
                  'the weight is the kernel value of the window position j', witness={'weight': vr(winc)}, node=n.node, key='weight-j')
        ctx.check(vr(a.index) == iv and vr(reads[0].args[0]) == afin, 'C15.N', f,
                  'output index i accumulates samples of the input feature', witness={'store index': vr(a.index)}, node=a.node, key='out-index')
        idx = reads[0].args[1]
        idx_seen = idx
        # guards on the same index
        conds = [cj for c, _ in o.state.conds for cj in c.conjuncts()]
        size = Rat.atom('%s.size()' % tr)
        lowg = any(cj.kind == 'cmp' and cj.op == '<=' and w.rel.is_zero(cj.a) and w.rel.is_zero(cj.b - idx) for cj in conds if isinstance(cj.a, Rat) and isinstance(cj.b, Rat))
        upg = any(cj.kind == 'cmp' and cj.op == '<' and w.rel.is_zero(cj.a - idx) and w.rel.is_zero(cj.b - size) for cj in conds if isinstance(cj.a, Rat) and isinstance(cj.b, Rat))
        nang = any(('isnan(%s)' % reads[0].value) in repr(c) and repr(c).startswith('not ') for c, _ in o.state.conds)
        ctx.check(lowg and upg and nang, 'C15.N', f,
                  'a sample enters only if its index is inside the track (0 <= index < size) and its value is not NaN',
                  witness={'index read': vr(idx), 'path conditions': pathtxt}, node=li, key='guards')
    if n_acc == 0 or idx_seen is None:
        raise shape_error('Filter.execute: no accumulating path', f.loc(li))
    # window: offsets symmetric, half width D = N // 2
    Dname = Nname = None
    for s_ in body[:body.index(lo)]:
        if isinstance(s_, ast.Assign) and isinstance(s_.targets[0], ast.Name):
            v = w.ex(s_.value, State())
            t = vr(v)
            if (t.startswith('int(1/2*') or t.startswith('floor(1/2*')) and t.endswith(')'):
                Dname, Nname = s_.targets[0].id, t[t.index('*') + 1:-1]
    if Dname is None:
        raise shape_error('Filter.execute: half width D = int(N/2) not found', f.loc())
    rj = w.range_info(li.iter, State())
    ctx.check(rj is not None and vr(rj[0]) == '0' and vr(rj[1]) in (Nname, 'len(%s)' % kern) and vr(rj[2]) == '1', 'C15.W', f,
              'the window loop visits every kernel position 0..N-1', witness={'range': unparse(li.iter)}, node=li, key='jrange')
    # offset of the sample paired with weight j: index(j) - i at j = 0 and j = N-1 with N = 2D+1
    D = Rat.atom('D#')
    idx_d = idx_seen.subst(Dname, D) if Dname in idx_seen.atoms() else idx_seen
    e0 = idx_d.subst(jv, Rat.const(0))
    e1 = idx_d.subst(jv, D * Rat.const(2))
    c0, c1 = e0 - Rat.atom(iv), e1 - Rat.atom(iv)
    ctx.check(w.rel.is_zero(c0 + c1) and (w.rel.is_zero(c0 - D) or w.rel.is_zero(c0 + D)), 'C15.W', f,
              'the window is centred: offsets run from -D to +D with D = N // 2',
              witness={'offset at j=0': vr(c0), 'offset at j=N-1': vr(c1)}, node=li, key='centred')
    # orientation, where the operator table documents it: y(t) = int[x(z)*h(t-z)dz], i.e. weight j meets sample i - (j - D)
    reg = ctx.prog.cls(OPS + '.Operator')
    doc = ast.get_docstring(reg.node) or ''
    if 'y(t) = int[x(z)*h(t-z)dz]' in doc.replace('= y(t)', 'y(t)'):
        ctx.check(w.rel.is_zero(idx_d - (Rat.atom(iv) - Rat.atom(jv) + D)), 'C15.W', f,
                  'weight j is paired with sample i - (j - D): the documented convolution y(t) = sum x(z) h(t - z)',
                  witness={'sample index': vr(idx_seen), 'expected': '%s - %s + %s' % (iv, jv, Dname),
                           'why': 'with the mirrored index an asymmetric weight list is applied back to front'}, node=li, key='orientation')
    # normalisation after the window loop and reset before
    post = lo.body[lo.body.index(li) + 1:]
    stp = State({iv: Rat.atom(iv)})
    po = [o for o in w.run(post, stp) if o.kind == 'fall']
    divs = [e for o in po for e in o.state.events if e.kind == 'store' and
            (e.aug == 'Div' or (e.aug is None and isinstance(e.value, Rat) and not e.value.ispoly()))]
    okdiv = len(divs) == 1 and vr(divs[0].index) == iv and (
        (divs[0].aug == 'Div' and vr(divs[0].value) == nname) or
        (divs[0].aug is None and w.rel.is_zero(divs[0].value - Rat.atom('%s[%s]' % (divs[0].name, iv)) / Rat.atom(nname))))
    ctx.check(okdiv, 'C15.N', f,
              'the accumulated sum of output i is divided by the accumulated weights', witness={'stores': [repr(e) for e in divs]},
              node=lo, key='divide')
    n0 = sp[0].state.env.get(nname)
    ctx.check(isinstance(n0, Rat) and n0.isconst() and n0.constval() == 0, 'C15.N', f,
              'the normaliser restarts from 0 for every output index', witness={'initial': vr(n0)}, node=lo, key='reset')


def _index_node(li, afin):
    for n in ast.walk(li):
        if isinstance(n, ast.Call) and getattr(n.func, 'attr', None) == 'getObsAnalyticalFeature' and len(n.args) == 2:
            return n.args[1]
    raise shape_error('sample read not found')


def rule_E(ctx):
    """C15.E even kernels rejected; C15.B boundary copy; C15.L list kernels normalised"""
    f, body, (lo, li) = _filter(ctx)
    tr, afin, kern, afout = f.params[1:5]
    w = Walker(f, loop_mode='once')
    outs = list(w.run(body, State()))
    raises = [o for o in outs if o.kind == 'raise']
    ok = bool(raises) and all(any('% 2) == 0' in repr(c) for c, _ in o.state.conds) for o in raises)
    rets = [o for o in outs if o.kind == 'return']
    ok = ok and all(any('% 2) != 0' in repr(c) or 'Dirac' in repr(c) for c, _ in o.state.conds) for o in rets)
    ctx.check(ok, 'C15.E', f, 'a kernel with an even number of weights is rejected (and only such a kernel)',
              witness={'raise paths': [[repr(c) for c, _ in o.state.conds][-2:] for o in raises]}, node=f.node, key='even')
    # boundary copy: with the flag off, outputs [0, D) and [size-D, size) are the inputs at the same index
    bnd = [s_ for s_ in body if isinstance(s_, ast.If) and 'boundary' in unparse(s_.test)]
    if len(bnd) != 1:
        raise shape_error('Filter.execute: boundary block not found', f.loc())
    wb = Walker(f, loop_mode='once')
    stb = wb.state_before(body, bnd[0]) or State()
    stb.events = []
    stb.conds = []
    Dn = [k for k, v in stb.env.items() if isinstance(v, Rat) and vr(v).startswith(('int(1/2*', 'floor(1/2*'))]
    if len(Dn) != 1:
        raise shape_error('Filter.execute: half width D not found before the boundary block', f.loc(bnd[0]))
    stb.env[Dn[0]] = Rat.atom('D')
    size = Rat.atom('%s.size()' % tr)
    D = Rat.atom('D')
    copies = []
    flagged = None
    for o in wb.run([bnd[0]], stb):
        sts = [e for e in o.state.events if e.kind == 'store' and e.loops]
        if not sts:
            continue
        flagged = [repr(c) for c, _ in o.state.conds if 'boundary' in repr(c)]
        for e in sts:
            lp = e.loops[-1]
            lv = lp['node'].target.id if isinstance(lp['node'], ast.For) and isinstance(lp['node'].target, ast.Name) else None
            okc = lv is not None and vr(e.index) == lv and vr(e.value) == '%s.getObsAnalyticalFeature(%s, %s)' % (tr, afin, lv) and e.aug is None
            for rg in _ranges(wb, lp):
                copies.append((rg, okc))
    head = any(wb.rel.is_zero(r[0]) and wb.rel.is_zero(r[1] - D) and okc for r, okc in copies)
    tail = any(wb.rel.is_zero(r[0] - (size - D)) and wb.rel.is_zero(r[1] - size) and okc for r, okc in copies)
    extra = [[vr(x) for x in r] for r, okc in copies if not ((wb.rel.is_zero(r[0]) and wb.rel.is_zero(r[1] - D)) or
                                                             (wb.rel.is_zero(r[0] - (size - D)) and wb.rel.is_zero(r[1] - size)))]
    ctx.check(head and tail and not extra and flagged is not None and any(t.startswith('not ') or '== 0' in t or 'False' in t for t in flagged), 'C15.B', f,
              'when boundaries are not filtered the first D and the last D outputs are the inputs at the same index',
              witness={'ranges copied': [[vr(x) for x in r] for r, _ in copies], 'copied value is the input at the same index': [okc for _, okc in copies],
                       'condition': flagged}, node=bnd[0], key='boundary')
    # kernel preparation: flag from the kernel object (False for lists), lists divided by their sum
    prep_end = None
    for k_, s_ in enumerate(body):
        if isinstance(s_, ast.Assign) and unparse(s_.value) == 'len(%s)' % kern:
            prep_end = k_
    if prep_end is None:
        raise shape_error('Filter.execute: N = len(kernel) not found', f.loc())
    wp = Walker(f, loop_mode='once')
    n_obj = n_lst = 0
    for o in wp.run(body[:prep_end], State()):
        if o.kind != 'fall':
            continue
        cs = [repr(c) for c, _ in o.state.conds]
        isobj = any(c == 'bool(isinstance(%s, Kernel))' % kern for c in cs)
        flag = o.state.env.get('boundary')
        names = [k for k, v in o.state.env.items() if isinstance(v, Rat) and vr(v) == '%s.filterBoundary()' % kern]
        if isobj:
            n_obj += 1
            ctx.check(bool(names), 'C15.B', f, 'for a kernel object the boundary setting is the one of the object',
                      witness={'path': cs, 'names holding kernel.filterBoundary()': names}, node=f.node, key='flag-object')
        else:
            n_lst += 1
            if names or not bnd:
                continue
            fl = [k for k in _names_in(bnd[0].test)]
            vals = {k: vr(o.state.env.get(k)) for k in fl}
            ctx.check(all(v in ('0', 'False') for v in vals.values()) and bool(vals), 'C15.B', f, 'for a plain list of weights boundaries are not filtered (flag False)',
                      witness={'path': cs, 'flag': vals}, node=f.node, key='flag-list')
            dv = [e for e in o.state.events if e.kind == 'store' and e.loops and (e.aug == 'Div' or (e.aug is None and isinstance(e.value, Rat) and not e.value.ispoly()))]
            okl = False
            for e in dv:
                lp = e.loops[-1]
                lv = lp['node'].target.id if isinstance(lp['node'], ast.For) and isinstance(lp['node'].target, ast.Name) else None
                r = lp.get('range')
                tot = e.value if e.aug == 'Div' else None
                if e.aug is None:
                    cur = Rat.atom('%s[%s]' % (e.name, lv))
                    q = cur / e.value if not e.value.n.iszero() else None
                    tot = q if q is not None and q.ispoly() else None
                okl = okl or (lv is not None and r is not None and vr(r[0]) == '0' and vr(r[1]).startswith('len(') and vr(e.index) == lv and tot is not None and
                              vr(tot).startswith('np.sum('))
            ctx.check(okl, 'C15.L', f, 'a list of weights is normalised: every weight divided by the sum of all weights',
                      witness={'path': cs, 'divisions': [repr(e) for e in dv]}, node=f.node, key='listnorm')
    if n_obj == 0 or n_lst == 0:
        raise shape_error('Filter.execute: kernel-object / weight-list preparation paths not both found', f.loc())


def _names_in(n):
    return sorted({x.id for x in ast.walk(n) if isinstance(x, ast.Name)})


def _ranges(w, lp):
    """index ranges [lo, hi) a for loop runs over: range(lo, hi), or a concatenation list(range(..)) + list(range(..))"""
    import re
    if lp.get('range') is not None:
        r = lp['range']
        if vr(r[2]) == '1':
            return [(r[0], r[1])]
        return []
    it = lp.get('iter')
    out = []
    if isinstance(it, Rat) and it.ispoly():
        for a in it.atoms():
            m = re.match(r'^list\(range\((.*)\)\)$', a)
            if not m:
                return []
            try:
                call = ast.parse('range(%s)' % m.group(1), mode='eval').body
                r = w.range_info(call, State())
            except Exception:
                return []
            if r is None or vr(r[2]) != '1':
                return []
            out.append((r[0], r[1]))
    return out


def rule_K(ctx):
    """C15.K sliding window of a kernel object"""
    f = ctx.prog.func(KER + '.toSlidingWindow')
    body = body_nodocstring(f)
    loops = [s for s in body if isinstance(s, ast.For)]
    if len(loops) != 2:
        raise shape_error('toSlidingWindow: expected a sampling loop and a normalising loop', f.loc())
    w = Walker(f, loop_mode='skip')
    pre = [o for o in w.run(body[:body.index(loops[0])], State()) if o.kind == 'fall']
    if not pre:
        raise shape_error('toSlidingWindow prologue', f.loc())
    st = pre[0].state
    r0 = w.range_info(loops[0].iter, st)
    size = r0[1] if r0 else None
    isup = Rat.atom('int(self.support)')
    ctx.check(size is not None and w.rel.is_zero(size - (isup * Rat.const(2) + Rat.const(1))) and vr(r0[0]) == '0', 'C15.K', f,
              'the window has odd length 2*int(support)+1 and every position is sampled', witness={'size': vr(size)}, node=loops[0], key='size')
    iv = loops[0].target.id
    # abscissa symmetric: x(i) + x(size-1-i) == 0
    def xat(ival):
        s2 = st.fork()
        s2.events = []
        for v in names_stored(loops[0].body):
            s2.env[v] = Rat.atom(v + '@')
        s2.env[iv] = ival
        o = [o_ for o_ in w.run(loops[0].body, s2) if o_.kind == 'fall']
        if len(o) != 1:
            raise shape_error('sampling loop body is not straight-line', f.loc(loops[0]))
        evs = [e for e in o[0].state.events if e.kind == 'call' and e.name == 'evaluate']
        if len(evs) != 1:
            raise shape_error('sampling loop does not evaluate the kernel once', f.loc(loops[0]))
        return evs[0].args[0], o[0]
    i_ = Rat.atom(iv)
    xa, oa = xat(i_)
    xb, _ = xat(size - Rat.const(1) - i_)
    ctx.check(isinstance(xa, Rat) and isinstance(xb, Rat) and w.rel.is_zero(xa + xb), 'C15.K', f,
              'sample abscissas are symmetric about 0: x(i) + x(size-1-i) == 0 (for every support, integral or not)',
              witness={'x(i)': vr(xa), 'x(size-1-i)': vr(xb), 'sum': vr(xa + xb)}, node=loops[0], key='symmetric')
    sts = [e for e in oa.state.events if e.kind == 'store']
    nrm = [e for e in oa.state.events if e.kind == 'assign' and isinstance(e.value, Rat) and (e.name + '@') in e.value.atoms()
           and not w.rel.is_zero(e.value - Rat.atom(e.name + '@'))]
    okn = False
    if len(sts) == 1 and len(nrm) == 1 and vr(sts[0].index) == iv and sts[0].aug is None and isinstance(sts[0].value, Rat):
        inc = nrm[0].value - Rat.atom(nrm[0].name + '@')
        okn = w.rel.is_zero(inc - sts[0].value) or w.rel.is_zero(inc - Rat.atom('%s[%s]' % (sts[0].name, iv)))
    ctx.check(bool(okn), 'C15.K', f, 'the normaliser accumulates exactly the sampled values', witness={'stores': [repr(e) for e in sts + nrm]},
              node=loops[0], key='accum')
    n0 = st.env.get(nrm[0].name) if nrm else None
    ctx.check(isinstance(n0, Rat) and n0.isconst() and n0.constval() == 0, 'C15.K', f, 'the normaliser starts at 0',
              witness={'initial': vr(n0)}, node=loops[0], key='norm0')
    r1 = w.range_info(loops[1].iter, st)
    lv1 = loops[1].target.id
    s3 = st.fork()
    s3.events = []
    s3.env[lv1] = Rat.atom(lv1)
    for v in names_stored(loops[0].body):
        s3.env[v] = Rat.atom(v + '!')
    o1 = [o_ for o_ in w.run(loops[1].body, s3) if o_.kind == 'fall']
    dv = [e for o_ in o1 for e in o_.state.events if e.kind == 'store']
    okd = False
    if len(dv) == 1 and nrm and vr(dv[0].index) == lv1:
        if dv[0].aug == 'Div':
            okd = vr(dv[0].value) == nrm[0].name + '!'
        elif dv[0].aug is None and isinstance(dv[0].value, Rat):
            okd = w.rel.is_zero(dv[0].value - Rat.atom('%s[%s]' % (dv[0].name, lv1)) / Rat.atom(nrm[0].name + '!'))
    ctx.check(r1 is not None and w.rel.is_zero(r1[1] - size) and vr(r1[0]) == '0' and okd and sts and dv[0].name == sts[0].name, 'C15.K', f,
              'every window value is divided by the sum of all values (the window sums to 1)',
              witness={'range': unparse(loops[1].iter), 'stores': [repr(e) for e in dv]}, node=loops[1], key='normalise')
    rets = [s_ for s_ in body if isinstance(s_, ast.Return)]
    rv = w.ex(rets[0].value, st.fork()) if len(rets) == 1 and rets[0].value is not None else None
    ctx.check(rv is not None and sts and w.base_text(rv) == sts[0].name, 'C15.K', f, 'the normalised window is what is returned',
              witness={'returned': vr(rv), 'window': sts[0].name if sts else None}, node=f.node, key='returned')


def rule_P(ctx):
    """C15.P built-in kernels are non-negative on their support (premise of the weighted-mean clause)"""
    from .. import interval
    mod = ctx.prog.module('tracklib.core.kernel')
    kernels = ('UniformKernel', 'TriangularKernel', 'GaussianKernel', 'ExponentialKernel', 'EpanechnikovKernel', 'CubicKernel', 'SphericKernel')
    n_done = 0
    for kn in kernels:
        c = ctx.prog.cls('tracklib.core.kernel.' + kn)
        init = c.methods.get('__init__')
        if init is None:
            raise shape_error('%s.__init__ not found' % kn)
        par = init.params[1]
        lam = [n for n in ast.walk(init.node) if isinstance(n, ast.Lambda) and len(n.args.args) == 1]
        sup = [n.value for n in ast.walk(init.node) if isinstance(n, ast.Assign) and unparse(n.targets[0]) == 'self.support']
        if len(lam) != 1 or len(sup) != 1:
            raise shape_error('%s: kernel function / support not found' % kn, init.loc())
        xv = lam[0].args.args[0].arg
        worst = None
        inconclusive = None
        try:
            for pval in (1.0, 2.0, 3.5, 10.0):
                s_lo, s_hi = interval.ev(sup[0], {par: (pval, pval)})
                support = s_hi
                # Kernel.evaluate masks the function outside [-support, support]; toSlidingWindow samples integer abscissas inside it
                steps = 400
                for k in range(steps):
                    lo = -support + 2 * support * k / steps
                    hi = -support + 2 * support * (k + 1) / steps
                    v = interval.ev(lam[0].body, {par: (pval, pval), xv: (lo, hi)})
                    if v[1] < -1e-12 and (worst is None or v[1] < worst[2]):
                        worst = (pval, (round(lo, 4), round(hi, 4)), v[1])
                    elif v[0] < -1e-9 and v[1] >= 0 and hi - lo > 0 and inconclusive is None:
                        # refine once around a sign change / indicator edge
                        for m in range(20):
                            l2 = lo + (hi - lo) * m / 20
                            h2 = lo + (hi - lo) * (m + 1) / 20
                            v2 = interval.ev(lam[0].body, {par: (pval, pval), xv: (l2, h2)})
                            if v2[1] < -1e-12 and (worst is None or v2[1] < worst[2]):
                                worst = (pval, (round(l2, 5), round(h2, 5)), v2[1])
        except interval.Unsupported as e:
            raise shape_error('%s: kernel function not interpretable on intervals: %s' % (kn, e), init.loc(lam[0]))
        n_done += 1
        ctx.check(worst is None, 'C15.P', init, '%s is non-negative everywhere on its support (its sliding window has no negative weight)' % kn,
                  witness={'parameter': worst[0], 'abscissas': list(worst[1]), 'kernel value at most': worst[2],
                           'why': 'a negative weight makes the output leave the range of the window values'} if worst else None,
                  node=lam[0], key='nonneg:' + kn)
    # the support mask of Kernel.evaluate
    evf = ctx.prog.func(KER + '.evaluate')
    ctx.recognise('abs(x) <= self.support' in unparse(evf.node), 'C15.P', evf, 'Kernel.evaluate is zero outside [-support, support]', node=evf.node)
    if n_done < 7:
        raise shape_error('only %d kernels analysed' % n_done)


def rule_S(ctx):
    """C15.S filter_seq wiring"""
    f = ctx.prog.func(FIL + '.filter_seq')
    tr, kern, dim = f.params[:3]
    loops = [s for s in body_nodocstring(f) if isinstance(s, ast.For)]
    if len(loops) != 1:
        raise shape_error('filter_seq: loop over dimensions not found', f.loc())
    lo = loops[0]
    av = lo.target.id
    # the kernel handed to the operator is the caller's kernel (or the box list built from an int)
    w = Walker(f, loop_mode='skip')
    pre = list(w.run(body_nodocstring(f)[:body_nodocstring(f).index(lo)], State()))
    for o in pre:
        if o.kind != 'fall':
            continue
        kv = o.state.env.get(kern, Rat.atom(kern))
        pathtxt = [repr(c) for c, _ in o.state.conds]
        ok = (isinstance(kv, Rat) and kv.single_atom() == kern) or (isinstance(kv, Rat) and 'Mult' in vr(kv) and '[1]' in vr(kv)) or \
            (isinstance(kv, list))
        ctx.check(ok, 'C15.S', f,
                  'the operator receives the caller\'s kernel itself, so a kernel object keeps its boundary setting',
                  witness={'kernel passed on this path': vr(kv), 'path conditions': pathtxt,
                           'why': 'a pre-computed window list carries no filterBoundary flag: boundaries are then always copied'},
                  node=lo, key='kernel:' + vr(kv)[:40])
    for letter, setter in (('x', 'setXFromAnalyticalFeature'), ('y', 'setYFromAnalyticalFeature'), ('z', 'setZFromAnalyticalFeature')):
        st = State({av: letter})
        outs = [o for o in w.run(lo.body, st) if o.kind in ('fall', 'continue')]
        if len(outs) != 1:
            raise shape_error('filter_seq body not single-path for %s' % letter, f.loc(lo))
        evs = outs[0].state.events
        ops = [e for e in evs if e.kind == 'call' and e.name == 'operate']
        sets = [e for e in evs if e.kind == 'call' and e.name.startswith('set') and e.name.endswith('FromAnalyticalFeature')]
        ok = len(ops) == 1 and len(sets) == 1 and sets[0].name == setter and ops[0].args[1] == letter and \
            vr(ops[0].args[0]) == 'Operator.FILTER' and sets[0].args[0] == ops[0].args[3] and ops[0].seq < sets[0].seq
        ctx.check(ok, 'C15.S', f, 'coordinate %s is filtered into a scratch feature and written back with %s from that same feature' % (letter, setter),
                  witness={'operate': [vr(a) for a in ops[0].args] if ops else None, 'setters': [e.name for e in sets]}, node=lo, key='coord:' + letter)
    # the filter works on the track it is given: Track.smooth rebinds a local name with the result, so only the in-place effect reaches the caller
    sm = ctx.prog.func('tracklib.core.track.Track.smooth')
    uses = [n for n in ast.walk(sm.node) if isinstance(n, ast.Call) and getattr(n.func, 'id', None) == 'filter_seq']
    if len(uses) != 1 or not uses[0].args or unparse(uses[0].args[0]) != 'self':
        raise shape_error('Track.smooth: filter_seq(self, ...) not found', sm.loc())
    keeps = [n for n in ast.walk(sm.node) if isinstance(n, ast.Return) and n.value is not None]
    relies = not keeps
    wfull = Walker(f, loop_mode='once')
    recvs = {}
    rets = []
    for o in wfull.run(body_nodocstring(f), State()):
        for e in o.state.events:
            if e.kind == 'call' and (e.name == 'operate' or (e.name.startswith('set') and e.name.endswith('FromAnalyticalFeature'))):
                recvs.setdefault(vr(e.recv), e)
        if o.kind == 'return':
            rets.append(vr(o.value))
    if not recvs:
        raise shape_error('filter_seq: no filtering call found', f.loc())
    if relies:
        for rt_, e in sorted(recvs.items()):
            ctx.check(rt_ == tr, 'C15.S', f, 'the sequence filter modifies the track it was given (Track.smooth discards the returned object)',
                      witness={'object filtered': rt_, 'parameter': tr, 'call': repr(e),
                               'why': 'Track.smooth does `self = filter_seq(self, ...)`: rebinding a local name; if a copy is filtered the caller\'s track is left unsmoothed'},
                      node=e.node, key='in-place:' + rt_)
    ctx.check(all(r_ in recvs or r_ == tr for r_ in rets) and bool(rets), 'C15.S', f, 'the track returned is the one that was filtered',
              witness={'returned': rets, 'filtered': sorted(recvs)}, node=f.node, key='returned')
    st = State({av: 'speed'})
    outs = [o for o in w.run(lo.body, st) if o.kind in ('fall', 'continue')]
    ops = [e for o in outs for e in o.state.events if e.kind == 'call' and e.name == 'operate']
    ctx.check(len(ops) == 1 and ops[0].args[1] == 'speed' and ops[0].args[3] == 'speed', 'C15.S', f,
              'a named feature is filtered in place', witness={}, node=lo, key='feature')


def rule_G(ctx):
    """C15.G the smoothing operator, the kernel classes and the sequence filter interpreted on signal / kernel configurations:
    output = weighted mean over the in-track, non-NaN samples of the window; boundary copy; windows of kernel objects symmetric, odd,
    summing to 1; filter_seq writes the filtered coordinates of the track it was given"""
    import math
    from .. import absint, orders, npstub
    ff = ctx.prog.func(OPS + '.Filter.execute')
    fk = ctx.prog.func(KER + '.toSlidingWindow')
    fs = ctx.prog.func(FIL + '.filter_seq')
    fn = absint.funcs(ctx, FIL, dict(npstub.stubs()))
    NANV = float('nan')                        # the NaN samples of the signals: NOT the module's NAN object
    fn['__globals__']['NAN'] = float('nan')
    T = absint.classref(ctx, 'tracklib.core.track.Track', fn)
    absint.operator_table(ctx, fn)
    kmod = 'tracklib.core.kernel'
    KCLS = {}
    for q, c in ctx.prog.classes.items():
        if q.startswith(kmod + '.') and (c.name == 'Kernel' or 'Kernel' in [b.split('.')[-1] for b in c.bases]):
            KCLS[c.name] = absint.classref(ctx, q, fn)
    if 'Kernel' not in KCLS or len(KCLS) < 4:
        raise shape_error('kernel classes not found', fk.loc())

    # positions and observations are the repository's own ENUCoords / Obs objects
    EN = absint.classref(ctx, 'tracklib.core.obs_coords.ENUCoords', fn)

    class _PosView:
        """reads the coordinates of a repository position for the checker (getX / getY / getZ / setZ by field)"""

        def __init__(self, p_):
            self.p = p_

        def getX(self):
            return self.p.fields['E']

        def getY(self):
            return self.p.fields['N']

        def getZ(self):
            return self.p.fields['U']

        def setZ(self, v):
            self.p.fields['U'] = v

    class _ObsView:
        def __init__(self, o_):
            self.o = o_

        @property
        def position(self):
            return _PosView(self.o.fields['position'])

    def P(x, y, z):
        return EN(float(x), float(y), float(z))

    def O(k, pos):
        return absint.real_obs(ctx, fn, pos, None, k=k)

    def track_of(xs, flat=False):
        t = T([O(k, P(v if v == v else 0.0, 2.0 * k, 0.0 if flat else -1.0 * k * k)) for k, v in enumerate(xs)], 'u', 't')
        t.call('createAnalyticalFeature', 'a', list(xs))
        return t

    def mean_window(xs, w, i, flip):
        D = len(w) // 2
        num = den = 0.0
        for j in range(len(w)):
            k = i - j + D if flip else i + j - D
            if 0 <= k < len(xs) and xs[k] == xs[k]:
                num += xs[k] * w[j]
                den += w[j]
        return num / den if den != 0 else NANV

    def close(a, b):
        if isinstance(b, float) and b != b:
            return isinstance(a, float) and a != a
        return isinstance(a, (int, float)) and not isinstance(a, bool) and a == a and abs(a - b) <= 1e-9 * max(1.0, abs(b))
    signals = {
        'generic': [3.0, -1.0, 4.0, 1.0, -5.0, 9.0, 2.0, 6.0, -5.0, 3.0, 5.0],
        'constant': [2.5] * 9,
        'monotone': [float(k * k) for k in range(9)],
        'with isolated NaN': [1.0, 2.0, NANV, 4.0, 8.0, 16.0, NANV, 3.0, 1.0, 0.0, 7.0],
        'NaN first and last': [NANV, 2.0, 3.0, 5.0, 7.0, 11.0, 13.0, NANV],
        'as long as the window': [1.0, 5.0, 2.0, 8.0, 3.0],
    }
    found = {}
    n_cases = 0

    def run_filter(xs, kernel, label, weights, boundary):
        """weights: the normalised window the output must realise (None: read from the kernel object first)"""
        nonlocal n_cases
        n_cases += 1
        t = track_of(xs)
        case = {'signal': [None if v != v else v for v in xs], 'kernel': label, 'boundary filtered': boundary}
        try:
            out = t.call('operate', fn['Operator'].FILTER, 'a', kernel, 'b')
            got = t.call('getAnalyticalFeature', 'b')
            src = t.call('getAnalyticalFeature', 'a')
        except orders.Unsupported as ex:
            raise shape_error('Filter.execute not interpretable: %s' % ex, ff.loc())
        except orders.PROGRAM_ERRORS as ex:
            found.setdefault('fails', (ff, 'filtering does not fail on a signal at least as long as the window', dict(case, exception='%s: %s' % (type(ex).__name__, str(ex)[:160]))))
            return
        D = len(weights) // 2
        n = len(xs)
        if not isinstance(got, list) or len(got) != n:
            found.setdefault('shape', (ff, 'one output value per observation', dict(case, output=repr(got)[:200])))
            return
        if not all((a != a and b != b) or a == b for a, b in zip(src, xs)):
            found.setdefault('input', (ff, 'the input feature is left as it was', dict(case, **{'input afterwards': src})))
        for flip in (True,):        # weight j goes with sample i + D - j (the first weight with the LATEST sample of the window)
            ok = True
            for i in range(n):
                if not boundary and (i < D or i >= n - D):
                    want = xs[i]
                else:
                    want = mean_window(xs, weights, i, flip)
                if not close(got[i], want):
                    ok = False
                    bad = (i, got[i], want)
                    break
            if ok:
                return
        i, g_, w_ = bad
        found.setdefault('mean', (ff, 'every output is the weighted mean of the window samples that are inside the track and not NaN, the weights renormalised over them; '
                                      'with unfiltered boundaries the first and last half-window are returned unchanged',
                                  dict(case, window=[round(w, 12) for w in weights], index=i, output=None if g_ != g_ else g_, expected=None if w_ != w_ else w_)))

    for sname, xs in signals.items():
        for wl in ([1.0, 2.0, 1.0], [1.0, 1.0, 1.0, 1.0, 1.0], [2.0, 1.0, 4.0], [5.0]):
            if len(wl) > len(xs):
                continue
            tot = sum(wl)
            run_filter(xs, list(wl), 'list %r' % (wl,), [w / tot for w in wl], False)
    # output feature == input feature: every window still reads the INPUT values
    for wl in ([1.0, 2.0, 1.0], [1.0, 1.0, 1.0, 1.0, 1.0]):
        xs = signals['with isolated NaN']
        t = track_of(xs)
        n_cases += 1
        tot = sum(wl)
        w_ = [v / tot for v in wl]
        D = len(wl) // 2
        try:
            t.call('operate', fn['Operator'].FILTER, 'a', list(wl), 'a')
            got = t.call('getAnalyticalFeature', 'a')
        except orders.Unsupported as ex:
            raise shape_error('Filter.execute not interpretable: %s' % ex, ff.loc())
        except orders.PROGRAM_ERRORS as ex:
            found.setdefault('fails', (ff, 'filtering does not fail on a signal at least as long as the window', {'kernel': wl, 'in place': True, 'exception': '%s: %s' % (type(ex).__name__, str(ex)[:160])}))
            continue
        want = [xs[i] if (i < D or i >= len(xs) - D) else mean_window(xs, w_, i, True) for i in range(len(xs))]
        if not (isinstance(got, list) and len(got) == len(want) and all(close(a_, b_) for a_, b_ in zip(got, want))):
            found.setdefault('in-place', (ff, 'filtering a feature into itself gives the same values as filtering it into another feature (each window reads the input values)',
                                          {'signal': [None if v != v else v for v in xs], 'kernel': wl, 'output': [None if (isinstance(v, float) and v != v) else v for v in got] if isinstance(got, list) else repr(got),
                                           'expected': [None if v != v else v for v in want]}))
    # the SAME asymmetric weight list object given to several filterings in a row (and to one call that filters two features): every one of
    # them applies the weights in the order they were given
    for wl in ([1.0, 2.0, 5.0], [3.0, 0.0, 1.0, 0.0, 0.5]):
        xs = signals['generic']
        if len(wl) > len(xs):
            continue
        tot = sum(wl)
        w_ = [v / tot for v in wl]
        D = len(wl) // 2
        want = [xs[i] if (i < D or i >= len(xs) - D) else mean_window(xs, w_, i, True) for i in range(len(xs))]
        t = track_of(xs)
        shared = list(wl)
        n_cases += 1
        try:
            outs = []
            for name in ('b1', 'b2', 'b3'):
                t.call('operate', fn['Operator'].FILTER, 'a', shared, name)
                outs.append((name, t.call('getAnalyticalFeature', name)))
        except orders.Unsupported as ex:
            raise shape_error('Filter.execute not interpretable: %s' % ex, ff.loc())
        except orders.PROGRAM_ERRORS as ex:
            found.setdefault('fails', (ff, 'filtering does not fail on a signal at least as long as the window', {'kernel': wl, 'history': 'the same list object used three times', 'exception': '%s: %s' % (type(ex).__name__, str(ex)[:160])}))
            continue
        for k_, (name, got) in enumerate(outs):
            if not (isinstance(got, list) and len(got) == len(want) and all(close(a_, b_) for a_, b_ in zip(got, want))):
                found.setdefault('kernel-reuse', (ff, 'a weight list used for several filterings is applied the same way each time (the weights in the order given, renormalised)',
                                                  {'signal': xs, 'kernel': wl, 'use number': k_ + 1, 'output': got if isinstance(got, list) else repr(got), 'expected': want}))
                break
    # an even number of weights is rejected
    t = track_of(signals['generic'])
    n_cases += 1
    try:
        t.call('operate', fn['Operator'].FILTER, 'a', [1.0, 1.0, 1.0, 1.0], 'b')
        found.setdefault('even', (ff, 'a kernel with an even number of weights is rejected', {'kernel': [1.0, 1.0, 1.0, 1.0], 'outcome': 'accepted', 'output': t.call('getAnalyticalFeature', 'b') if t.call('hasAnalyticalFeature', 'b') else None}))
    except orders.Unsupported as ex:
        if 'free name' not in str(ex):          # the exception class raised is not imported in the module (recorded in DESIGN section 9): a NameError, still a rejection
            raise shape_error('Filter.execute not interpretable: %s' % ex, ff.loc())
    except (orders.Raised, TypeError, ValueError, NameError):
        pass
    # kernel objects: the window first (symmetric, odd, sums to 1, non-negative), then the filter with both boundary settings
    kernels = []
    # (kernels of one class whose widths differ by less than a sample follow each other: what is computed for one is not the other's)
    for cname, arg in (('GaussianKernel', 1.0), ('GaussianKernel', 1.2), ('GaussianKernel', 0.5), ('TriangularKernel', 2.0), ('TriangularKernel', 2.5), ('TriangularKernel', 3.0), ('UniformKernel', 1.0),
                       ('UniformKernel', 1.5), ('ExponentialKernel', 1.0), ('ExponentialKernel', 1.1), ('EpanechnikovKernel', 3.0), ('EpanechnikovKernel', 2.0), ('EpanechnikovKernel', 2.4)):
        if cname in KCLS:
            kernels.append((cname, arg))
    if len(kernels) < 4:
        raise shape_error('built-in kernels not found', fk.loc())
    for cname, arg in kernels:
        label = '%s(%s)' % (cname, arg)
        try:
            k = KCLS[cname](arg)
            win = k.call('toSlidingWindow')
        except orders.Unsupported as ex:
            raise shape_error('%s not interpretable: %s' % (label, ex), fk.loc())
        except orders.PROGRAM_ERRORS as ex:
            found.setdefault('window-fails', (fk, 'the sliding window of a built-in kernel can be computed', {'kernel': label, 'exception': '%s: %s' % (type(ex).__name__, str(ex)[:160])}))
            continue
        n_cases += 1
        okw = isinstance(win, list) and len(win) % 2 == 1 and all(isinstance(v, (int, float)) and v >= 0 for v in win)
        if okw:
            okw = abs(sum(win) - 1.0) <= 1e-9 and all(abs(win[i] - win[len(win) - 1 - i]) <= 1e-12 for i in range(len(win)))
        if not okw:
            found.setdefault('window', (fk, 'the sliding window of a kernel object has odd length, is symmetric, non-negative and sums to 1',
                                        {'kernel': label, 'window': win if isinstance(win, list) else repr(win)}))
            continue
        for sname in ('generic', 'constant', 'with isolated NaN'):
            xs = signals[sname]
            if len(win) > len(xs):
                continue
            for boundary in (False, True):
                k2 = KCLS[cname](arg)
                k2.call('setFilterBoundary', boundary)
                run_filter(xs, k2, label, list(win), boundary)
    # the sequence filter: coordinates of the track it is given
    xs = signals['generic']
    def tri_true():
        k_ = KCLS['TriangularKernel'](2.0)
        k_.call('setFilterBoundary', True)
        return k_
    seq_cases = [('list [1, 2, 1]', lambda: [1.0, 2.0, 1.0], [0.25, 0.5, 0.25], False)]
    if 'TriangularKernel' in KCLS:
        try:
            seq_cases.append(('TriangularKernel(2.0) with boundary filtering', tri_true, list(KCLS['TriangularKernel'](2.0).call('toSlidingWindow')), True))
        except Exception:
            pass
    # ... and tracks exactly as long as, and one fix longer than, the window (only the central fixes are then filtered)
    xs_generic = xs
    seq_cases = [(a_, b_, c_, d_, xs_generic) for a_, b_, c_, d_ in seq_cases]
    seq_cases += [('list [1, 2, 3, 2, 1] on a track of 5 fixes', lambda: [1.0, 2.0, 3.0, 2.0, 1.0], [1 / 9.0, 2 / 9.0, 3 / 9.0, 2 / 9.0, 1 / 9.0], False, signals['as long as the window']),
                  ('list [1, 2, 3, 2, 1] on a track of 6 fixes', lambda: [1.0, 2.0, 3.0, 2.0, 1.0], [1 / 9.0, 2 / 9.0, 3 / 9.0, 2 / 9.0, 1 / 9.0], False, signals['as long as the window'] + [4.0]),
                  ('list [1, 2, 1] on a track of 3 fixes', lambda: [1.0, 2.0, 1.0], [0.25, 0.5, 0.25], False, [1.0, 5.0, 2.0])]
    for kern_label, mk, win, bnd, xs in seq_cases:
        t = track_of(xs)
        n_cases += 1
        try:
            res = fn['__name__']('filter_seq')(t, mk(), ['x', 'y'])
        except orders.Unsupported as ex:
            raise shape_error('filter_seq not interpretable: %s' % ex, fs.loc())
        except orders.PROGRAM_ERRORS as ex:
            found.setdefault('seq-fails', (fs, 'filter_seq does not fail', {'exception': '%s: %s' % (type(ex).__name__, str(ex)[:160])}))
            continue
        for tr_label, tr in (('the track passed', t), ('the track returned', res)):
            if not isinstance(tr, orders.Obj):
                found.setdefault('seq', (fs, 'filter_seq returns the filtered track', {'returned': repr(tr)[:80]}))
                continue
            gx = [o.position.getX() for o in map(_ObsView, tr.fields['_Track__POINTS'])]
            gy = [o.position.getY() for o in map(_ObsView, tr.fields['_Track__POINTS'])]
            gz = [o.position.getZ() for o in map(_ObsView, tr.fields['_Track__POINTS'])]
            ys, zs = [2.0 * k for k in range(len(xs))], [-1.0 * k * k for k in range(len(xs))]
            Dw = len(win) // 2
            edge = lambda i: (not bnd) and (i < Dw or i >= len(xs) - Dw)
            wx = [xs[i] if edge(i) else mean_window(xs, win, i, True) for i in range(len(xs))]
            wy = [ys[i] if edge(i) else mean_window(ys, win, i, True) for i in range(len(xs))]
            if not (all(close(a, b) for a, b in zip(gx, wx)) and all(close(a, b) for a, b in zip(gy, wy)) and gz == zs):
                found.setdefault('seq', (fs, 'filter_seq(track, kernel, [x, y]) leaves the smoothed x and y in the track it was given (and in the one it returns), z untouched',
                                         {'kernel': kern_label, 'which': tr_label, 'x': gx, 'expected x': wx, 'y': gy, 'expected y': wy, 'z': gz}))
    xs = xs_generic
    # a history of calls with the default dimensions: a flat track (constant z) first, then a track whose z varies - every call
    # filters the dimensions it was asked for, whatever was filtered before (module-level defaults are shared between calls)
    zs_ = [-1.0 * k * k for k in range(len(xs))]
    for first_flat in (True, False):
        hist = [track_of(xs, flat=first_flat), track_of(xs, flat=not first_flat), track_of(xs, flat=False)]
        n_cases += 1
        try:
            for t_ in hist:
                fn['__name__']('filter_seq')(t_, [1.0, 2.0, 1.0])
        except orders.Unsupported as ex:
            raise shape_error('filter_seq not interpretable: %s' % ex, fs.loc())
        except orders.PROGRAM_ERRORS as ex:
            found.setdefault('seq-fails', (fs, 'filter_seq does not fail', {'history': 'three calls with the default dimensions', 'exception': '%s: %s' % (type(ex).__name__, str(ex)[:160])}))
            continue
        win3 = [0.25, 0.5, 0.25]
        for k_, t_ in enumerate(hist):
            pts = [_ObsView(o_) for o_ in t_.fields['_Track__POINTS']]
            zin = [0.0] * len(xs) if (k_ == 0) == first_flat and k_ < 2 else zs_
            if k_ == 2:
                zin = zs_
            wz = [zin[i] if (i < 1 or i >= len(xs) - 1) else mean_window(zin, win3, i, True) for i in range(len(xs))]
            wx = [xs[i] if (i < 1 or i >= len(xs) - 1) else mean_window(xs, win3, i, True) for i in range(len(xs))]
            gz = [o.position.getZ() for o in pts]
            gx = [o.position.getX() for o in pts]
            if not (all(close(a, b) for a, b in zip(gz, wz)) and all(close(a, b) for a, b in zip(gx, wx))):
                found.setdefault('seq-history', (fs, 'filter_seq with the default dimensions smooths x, y and z of the track it is given, whatever tracks were filtered before',
                                                 {'history': ['flat track (constant z)' if (j == 0) == first_flat and j < 2 else 'track with varying z' for j in range(3)],
                                                  'call': k_ + 1, 'kernel': [1.0, 2.0, 1.0], 'z': gz, 'expected z': wz, 'x': gx, 'expected x': wx}))
                break
    # features whose names are 'X' and 'Z' (a projected easting, a z-score): filter_seq on them filters the features, the coordinates stay
    t_ = track_of(xs)
    n_cases += 1
    fX = [3.0 * k - 1.0 for k in range(len(xs))]
    fZ = [0.5 * k * k for k in range(len(xs))]
    try:
        t_.call('createAnalyticalFeature', 'X', list(fX))
        t_.call('createAnalyticalFeature', 'Z', list(fZ))
        before = [(o.position.getX(), o.position.getY(), o.position.getZ()) for o in map(_ObsView, t_.fields['_Track__POINTS'])]
        fn['__name__']('filter_seq')(t_, [1.0, 2.0, 1.0], ['X', 'Z'])
        gX, gZ = t_.call('getAnalyticalFeature', 'X'), t_.call('getAnalyticalFeature', 'Z')
        after = [(o.position.getX(), o.position.getY(), o.position.getZ()) for o in map(_ObsView, t_.fields['_Track__POINTS'])]
        win3 = [0.25, 0.5, 0.25]
        wX = [fX[i] if (i < 1 or i >= len(xs) - 1) else mean_window(fX, win3, i, True) for i in range(len(xs))]
        wZ = [fZ[i] if (i < 1 or i >= len(xs) - 1) else mean_window(fZ, win3, i, True) for i in range(len(xs))]
        if not (isinstance(gX, list) and isinstance(gZ, list) and all(close(a, b) for a, b in zip(gX, wX)) and all(close(a, b) for a, b in zip(gZ, wZ)) and after == before):
            found.setdefault('seq-names', (fs, "filter_seq on features named 'X' and 'Z' smooths those features and leaves the coordinates alone",
                                           {'kernel': [1.0, 2.0, 1.0], 'feature X': gX, 'expected': wX, 'feature Z': gZ, 'expected Z': wZ, 'coordinates changed': after != before}))
    except orders.Unsupported as ex:
        raise shape_error('filter_seq not interpretable: %s' % ex, fs.loc())
    except orders.PROGRAM_ERRORS as ex:
        found.setdefault('seq-fails', (fs, 'filter_seq does not fail', {'dimensions': ['X', 'Z'], 'exception': '%s: %s' % (type(ex).__name__, str(ex)[:160])}))
    # a height missing at the first fix only (NaN), heights elsewhere: z is still smoothed over its valid samples
    for dims in (None, ['x', 'y', 'z'], ['z']):
        t_ = track_of(xs)
        _ObsView(t_.fields['_Track__POINTS'][0]).position.setZ(NANV)
        zin = [NANV] + zs_[1:]
        n_cases += 1
        try:
            if dims is None:
                fn['__name__']('filter_seq')(t_, [1.0, 2.0, 1.0])
            else:
                fn['__name__']('filter_seq')(t_, [1.0, 2.0, 1.0], list(dims))
        except orders.Unsupported as ex:
            raise shape_error('filter_seq not interpretable: %s' % ex, fs.loc())
        except orders.PROGRAM_ERRORS as ex:
            found.setdefault('seq-fails', (fs, 'filter_seq does not fail', {'track': 'height missing (NaN) at the first fix', 'exception': '%s: %s' % (type(ex).__name__, str(ex)[:160])}))
            continue
        wz = [zin[i] if (i < 1 or i >= len(xs) - 1) else mean_window(zin, [0.25, 0.5, 0.25], i, True) for i in range(len(xs))]
        gz = [_ObsView(o).position.getZ() for o in t_.fields['_Track__POINTS']]
        if not all(close(a, b) for a, b in zip(gz, wz)):
            found.setdefault('seq-nan', (fs, 'filter_seq smooths the heights over their valid samples when the height of the first fix is missing (NaN)',
                                         {'dimensions': dims or 'default', 'kernel': [1.0, 2.0, 1.0], 'z before': [None if v != v else v for v in zin], 'z after': [None if (isinstance(v, float) and v != v) else v for v in gz],
                                          'expected': [None if v != v else v for v in wz]}))
    # the same signals held as numpy scalars (columns taken from numpy arrays): NaN samples are still left out of the mean
    for kname, kind, tol in (('numpy.float64 scalar', npstub.NpF64, 1e-9), ('numpy.float32 scalar', npstub.NpF32, 1e-5)):
        for sname in ('with isolated NaN', 'NaN first and last'):
            xs_ = signals[sname]
            n_cases += 1
            t = track_of(xs_)
            t.call('createAnalyticalFeature', 'c', [kind(v) for v in xs_])
            try:
                t.call('operate', fn['Operator'].FILTER, 'c', [1.0, 2.0, 1.0], 'b')
                got = t.call('getAnalyticalFeature', 'b')
            except orders.Unsupported as ex:
                raise shape_error('Filter.execute not interpretable: %s' % ex, ff.loc())
            except orders.PROGRAM_ERRORS as ex:
                found.setdefault('fails', (ff, 'filtering does not fail on a signal at least as long as the window', {'signal held as': kname, 'exception': '%s: %s' % (type(ex).__name__, str(ex)[:160])}))
                continue
            want = [xs_[i] if (i < 1 or i >= len(xs_) - 1) else mean_window(xs_, [0.25, 0.5, 0.25], i, True) for i in range(len(xs_))]
            gotf = [float(v) if hasattr(v, '__float__') and not isinstance(v, (str, bool)) else v for v in got] if isinstance(got, list) else None
            okk = gotf is not None and len(gotf) == len(want) and all((b != b and isinstance(a, float) and a != a) or (isinstance(a, float) and a == a and b == b and abs(a - b) <= tol * max(1.0, abs(b))) for a, b in zip(gotf, want))
            if not okk:
                found.setdefault('mean-np', (ff, 'every output is the weighted mean of the window samples that are inside the track and not NaN - also when the samples are numpy scalars',
                                             {'signal': [None if v != v else v for v in xs_], 'signal held as': kname, 'kernel': [1.0, 2.0, 1.0],
                                              'output': [None if (isinstance(v, float) and v != v) else v for v in gotf] if gotf is not None else repr(got)[:200], 'expected': [None if v != v else v for v in want]}))
    for key, (f, desc, wit) in sorted(found.items()):
        ctx.violation('C15.G', f, desc, wit, node=f.node, key=key)
    if not any(k in found for k in ('fails', 'shape', 'input', 'mean', 'mean-np', 'in-place', 'even')):
        ctx.ok('C15.G', ff, 'Filter: weighted mean over the valid samples of the window, boundary copy, input untouched (%d signal/kernel configurations)' % n_cases, node=ff.node)
    if not any(k in found for k in ('window', 'window-fails')):
        ctx.ok('C15.G', fk, 'sliding windows of %d built-in kernels: odd, symmetric, non-negative, sum 1' % len(kernels), node=fk.node)
    if not any(k in found for k in ('seq', 'seq-fails', 'seq-history', 'seq-nan', 'seq-names')):
        ctx.ok('C15.G', fs, 'filter_seq writes the filtered coordinates into the track it is given', node=fs.node)
    ctx.extra['C15.G cases'] = n_cases


RULES = [
    ('C15.G', rule_G, 'quick'),
]
MIN_OBLIGATIONS = 3
