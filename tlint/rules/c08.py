"""C08 - grid spatial index (tracklib/core/spatial_index.py, Network.addEdge)."""
import ast
import re

from ..alg import Rat
from ..loader import shape_error, anchor_error
from ..sx import Walker, State
from ..util import body_nodocstring, names_stored, unparse

SI = 'tracklib.core.spatial_index.SpatialIndex'
NET = 'tracklib.core.network.Network'

EXPLANATION = (
    'Static analysis of SpatialIndex and Network.createSpatialIndex / addEdge / bbox by interpretation of the source (tlint.orders; the repository is never imported or executed).  (Q) __init__, addFeature, __getCell, __cellsCrossSegment, request, neighborhood and __neighboringcells on a non-square 3 x 2 grid of unit cells each holding one marker, vertices on the integrality classes {k, k+1/2} including the closed upper border, segments strictly inside a cell, tracks of three vertices, window radii 0..3, six data extents for the constructor: every query form returns the data of every cell met / within the window (no false negatives), registration reaches every such cell, the allocated grid covers the extent.  (S) the same obligations on grids 2x5, 1x4, 4x1 and 3x3: windows of every radius up to beyond the larger dimension, registration along every row, every column and a U shape, two features sharing cells.  (N) a network and its index: straight, hairpin and loop networks, edges added after the index was built, point queries on every edge return that edge under its own position.  (U) units = round(d/E + B) + c decomposed symbolically: the rounding never loses a started cell and E is at most the smaller cell side on every order class of (dX, dY).')
ASSUMPTIONS = ["query points and vertices inside the index extent", "the straddle test isSegmentIntersects is interpreted as written; its completeness for touching/collinear cases in real geometry is not decided",
               "the case domain is exhaustive for the dependence on integrality class, border position and grid shape, and bounded (3 x 2 cells, 3 vertices, radius <= 3) otherwise"]
TECHNIQUE = "abstract interpretation of the SpatialIndex / Network method bodies by the checker's AST interpreter on finite case domains (grid shapes x integrality classes of the vertices x window radii; networks with curved and late edges; index objects built by the repository's constructor; query histories on one index) (bounded), symbolic rounding/polarity decomposition of the distance-to-units conversion (F2, all inputs)"



def _make_index(ctx, fn, CS, LS, grid, scale=1.0):
    """a CS x LS index of unit cells over [0, CS] x [0, LS]: built by the repository's own constructor (over an empty collection of that
    extent, so that whatever fields the constructor creates exist), then given the cell contents of the case"""
    from .. import absint, orders

    class _Box(orders.PyStub):
        isa = ('Bbox',)

        def __init__(self, v):
            self.v = tuple(float(x) for x in v)

        def copy(self):
            return _Box(self.v)

        def addMargin(self, m):
            dx, dy = (self.v[1] - self.v[0]) * m, (self.v[3] - self.v[2]) * m
            self.v = (self.v[0] - dx, self.v[1] + dx, self.v[2] - dy, self.v[3] + dy)

        def asTuple(self):
            return self.v

        def getDimensions(self):
            return (self.v[1] - self.v[0], self.v[3] - self.v[2])

    class _Empty(orders.PyStub):
        isa = ('TrackCollection',)

        def bbox(self):
            return _Box((0.0, CS * scale, 0.0, LS * scale))

        def size(self):
            return 0

        def __len__(self):
            return 0

        def __iter__(self):
            return iter(())

        def __getitem__(self, k):
            raise IndexError(k)
    explicit = {'grid': grid, 'csize': CS, 'lsize': LS, 'xmin': 0.0, 'ymin': 0.0, 'xmax': float(CS), 'ymax': float(LS),
                'dX': 1.0, 'dY': 1.0, 'inventaire': set(), 'collection': None, 'verbose': False}
    try:
        ix = absint.classref(ctx, SI, fn)(_Empty(), (scale, scale), 0.0, False)
        ok = isinstance(ix, orders.Obj) and ix.fields.get('csize') == CS and ix.fields.get('lsize') == LS
    except Exception:
        ok = False
    if not ok:
        if scale != 1.0:
            raise orders.Unsupported('SpatialIndex constructor not interpretable for a %g-sized cell' % scale)
        return absint.instance(ctx, SI, explicit, fn)
    ix.fields.update({'grid': grid, 'collection': None})
    return ix

def vr(v):
    if isinstance(v, Rat):
        a = v.single_atom()
        return a if a is not None else repr(v)
    return repr(v)


def _m(ctx, suffix):
    for q, fi in ctx.prog.functions.items():
        if q.startswith(SI + '.') and fi.name.endswith(suffix):
            return fi
    raise anchor_error('SpatialIndex.*%s not found' % suffix, SI)


def rule_M(ctx):
    """C08.M one coordinate -> cell mapping"""
    f = _m(ctx, '__getCell')
    co = f.params[1]
    w = Walker(f, loop_mode='skip')
    outs = [o for o in w.run(body_nodocstring(f), State()) if o.kind == 'return']
    pairs = [o for o in outs if isinstance(o.value, tuple) and len(o.value) == 2]
    if len(pairs) != 1:
        raise shape_error('__getCell: expected one (idx, idy) return', f.loc())
    X, Y = Rat.atom('%s.getX()' % co), Rat.atom('%s.getY()' % co)
    ex = (X - Rat.atom('self.xmin')) / Rat.atom('self.dX')
    ey = (Y - Rat.atom('self.ymin')) / Rat.atom('self.dY')
    ix, iy = pairs[0].value
    ctx.check(isinstance(ix, Rat) and w.rel.is_zero(ix - ex) and isinstance(iy, Rat) and w.rel.is_zero(iy - ey), 'C08.M', f,
              'fractional cell = ((x - xmin)/dX, (y - ymin)/dY)', witness={'found': [vr(ix), vr(iy)], 'expected': [vr(ex), vr(ey)]},
              node=pairs[0].node, key='formula')
    # every consumer goes through __getCell and floors
    users = {}
    for q, fi in ctx.prog.functions.items():
        if q.startswith(SI + '.') and fi is not f:
            n = sum(1 for c in ast.walk(fi.node) if isinstance(c, ast.Call) and getattr(c.func, 'attr', None) == '__getCell')
            own = [c for c in ast.walk(fi.node) if isinstance(c, ast.BinOp) and isinstance(c.op, ast.Div) and
                   re.search(r'self\.d[XY]$', unparse(c.right) or '') and 'xmin' in unparse(c.left) + 'ymin']
            priv = [c for c in ast.walk(fi.node) if isinstance(c, ast.BinOp) and isinstance(c.op, ast.Div) and
                    unparse(c.right) in ('self.dX', 'self.dY') and ('self.xmin' in unparse(c.left) or 'self.ymin' in unparse(c.left))]
            ctx.check(not priv, 'C08.M', fi, 'no private copy of the coordinate->cell formula (registration and queries must agree)',
                      witness={'private formula': [unparse(c) for c in priv]}, node=fi.node, key='private:' + fi.name) if priv else None


def _floor_of(w, v, what):
    """is v == floor(what) possibly clamped by min(., size-1) ?  returns (ok, clamped)"""
    t = vr(v)
    f = 'floor(%s)' % what
    if t == f:
        return True, False
    m = re.match(r'^min\((.*)\)$', t)
    if m and f in t and ('self.csize' in t or 'self.lsize' in t):
        return True, True
    return False, False


def _bbox_cases(f, body, lo, li, c1, c2):
    """The cells examined for a segment depend on the end points only through floor/ceil/min/max and the grid size:
    evaluate the bounds (the statements before the double loop and the two range() arguments - nothing else) on the finite case
    domain {integer, half-integer} coordinates x small non-square grids.  Returns per axis the first case where a required
    cell is not examined ('missing') or a cell outside the grid is ('outside')."""
    import math
    from .. import orders
    funcs = {'floor': math.floor, 'ceil': math.ceil, 'round': round, 'trunc': math.trunc}
    out = {'columns': {'missing': None, 'outside': None, 'cases': 0}, 'rows': {'missing': None, 'outside': None, 'cases': 0}}
    pre = body[:body.index(lo)]
    for S1, S2 in ((2, 3), (3, 2)):
        xs = [k / 2 for k in range(2 * S1 + 1)]
        ys = [k / 2 for k in range(2 * S2 + 1)]
        for x1 in xs:
            for x2 in xs:
                for y1 in ys:
                    for y2 in ys:
                        env = {c1: (x1, y1), c2: (x2, y2), 'self.csize': S1, 'self.lsize': S2}
                        try:
                            orders.run_block(pre, env, funcs)
                            cols = list(orders.ev(lo.iter, env, funcs))
                            rows = set()
                            for i in cols:
                                env[lo.target.id] = i
                                pre_in = lo.body[:lo.body.index(li)]
                                orders.run_block(pre_in, env, funcs)
                                rows_i = list(orders.ev(li.iter, env, funcs))
                                rows = set(rows_i) if not rows else rows & set(rows_i)
                        except orders.Unsupported as ex:
                            raise shape_error('__cellsCrossSegment: cell range not evaluable on the case domain (%s)' % ex, f.loc(lo))
                        for nm, got, a, b, S in (('columns', set(cols), x1, x2, S1), ('rows', rows, y1, y2, S2)):
                            need = set(range(min(min(math.floor(a), math.floor(b)), S - 1), min(max(math.floor(a), math.floor(b)), S - 1) + 1))
                            o = out[nm]
                            o['cases'] += 1
                            case = {'end points': [[x1, y1], [x2, y2]], 'grid (columns, rows)': [S1, S2], 'examined': sorted(got)}
                            if o['missing'] is None and not need <= got:
                                o['missing'] = dict(case, **{'not examined': sorted(need - got)})
                            if o['outside'] is None and any(k < 0 or k >= S for k in got):
                                o['outside'] = dict(case, **{'outside the grid': sorted(k for k in got if k < 0 or k >= S)})
    return out


def rule_B(ctx):
    """C08.B cells crossed by a segment"""
    f = _m(ctx, '__cellsCrossSegment')
    c1, c2 = f.params[1:3]
    body = body_nodocstring(f)
    loops = [s for s in body if isinstance(s, ast.For)]
    if len(loops) != 1 or not any(isinstance(x, ast.For) for x in loops[0].body):
        raise shape_error('__cellsCrossSegment: double loop not found', f.loc())
    lo = loops[0]
    li = [x for x in lo.body if isinstance(x, ast.For)][0]
    w = Walker(f, loop_mode='skip')
    pre = [o for o in w.run(body[:body.index(lo)], State()) if o.kind == 'fall'][0].state
    for nm, res in _bbox_cases(f, body, lo, li, c1, c2).items():
        ctx.check(res['missing'] is None, 'C08.B', f,
                  '%s examined cover every cell from the smaller to the larger floored end-point index (upper border folded into the last one)' % nm,
                  witness={'case': res['missing'], 'cases evaluated': res['cases'],
                           'why': 'a cell holding an end point (or lying between the end points) is not examined, so the segment is not registered there'},
                  node=lo if nm == 'columns' else li, key='bbox:' + nm)


def rule_U(ctx):
    """C08.U conservative conversion of a ground distance into units"""
    f = ctx.prog.func(SI + '.groundDistanceToUnits')
    d = f.params[1]
    w = Walker(f, loop_mode='skip')
    outs = [o for o in w.run(body_nodocstring(f), State()) if o.kind == 'return']
    if len(outs) != 1:
        raise shape_error('groundDistanceToUnits not single path', f.loc())
    val = outs[0].value
    if not (isinstance(val, Rat) and val.ispoly()):
        raise shape_error('groundDistanceToUnits: return value not understood', f.loc())
    rounders = [a for a in val.atoms() if re.match(r'^(floor|ceil|int|trunc)\(', a)]
    if len(rounders) != 1 or not (val - Rat.atom(rounders[0])).isconst():
        raise shape_error('groundDistanceToUnits: not <rounding>(expression) + constant: %s' % vr(val), f.loc())
    c0 = (val - Rat.atom(rounders[0])).constval()
    kind = rounders[0].split('(', 1)[0]
    try:
        inner_node = ast.parse(rounders[0], mode='eval').body.args[0]
        inner = w.ex(inner_node, State({d: Rat.atom(d)}))
    except Exception:
        raise shape_error('groundDistanceToUnits: rounded expression not understood: %s' % rounders[0], f.loc())
    # inner = d / E + B
    B = inner.subst(d, Rat.const(0))
    slope = inner - B
    E = Rat.atom(d) / slope if not w.rel.is_zero(slope) else None
    if E is not None and E.const_ratio() is None:
        num, den = E.n, E.d
        # cancel the distance: E = d*den'/(d*num') -> evaluate at d = 1
        E = E.subst(d, Rat.const(1))
    if E is None or d in E.atoms() or B.const_ratio() is None:
        raise shape_error('groundDistanceToUnits: not affine in the distance: %s' % vr(inner), f.loc())
    # (1) rounding never loses a started cell: floor/int need B + c0 >= 1, ceil needs B + c0 >= 0
    slack = B.const_ratio() + c0
    need = 0 if kind == 'ceil' else 1
    ctx.check(slack >= need, 'C08.U', f, 'the rounding is upward: units * D >= d for every distance d (floor(d/D + 1) or ceil(d/D))',
              witness={'found': vr(val), 'rounding': kind, 'constant added (inside + outside)': str(slack), 'needed at least': need,
                       'why': 'with d = 1.5 cell sides one unit does not reach the feature'}, node=f.node, key='rounding')
    # (2) the divisor is a lower bound of both cell sides (units grow when the side shrinks): decide on the order classes of (dX, dY)
    from .. import orders
    bad = None
    for dx, dy in ((1, 2), (2, 1), (1, 1)):
        try:
            e = orders.ev(ast.parse(repr(E), mode='eval').body, {'self.dX': dx, 'self.dY': dy}, {'ite': lambda c_, a_, b_: a_ if c_ else b_})
        except (orders.Unsupported, SyntaxError) as ex:
            raise shape_error('groundDistanceToUnits: divisor not evaluable on the order classes of (dX, dY): %s' % vr(E), f.loc())
        if bad is None and not (0 < e <= min(dx, dy)):
            bad = {'dX': dx, 'dY': dy, 'divisor': str(e), 'smaller cell side': min(dx, dy)}
    ctx.check(bad is None, 'C08.U', f,
              'the distance is divided by (at most) the SMALLER cell side: the window then covers distance d along both axes',
              witness={'divisor': vr(E), 'case': bad,
                       'why': 'the number of cells needed grows when the cell side shrinks: dividing by the larger side under-covers the other axis'},
              node=f.node, key='polarity')


def rule_I(ctx):
    """C08.I indices stay inside the allocated grid"""
    f = _m(ctx, '__getCell')
    # __getCell admits every coordinate of the closed extent: the extent is the bounding box of the data (plus a margin that may be 0),
    # so the extreme vertices lie exactly on its border
    from .c03 import cond_eval
    co = f.params[1]
    wq = Walker(f, loop_mode='skip')
    X, Y = '%s.getX()' % co, '%s.getY()' % co
    width = Rat.atom('self.xmax') - Rat.atom('self.xmin')
    height = Rat.atom('self.ymax') - Rat.atom('self.ymin')
    n_none = 0
    for o in wq.run(body_nodocstring(f), State()):
        if o.kind != 'return' or isinstance(o.value, tuple):
            continue
        n_none += 1
        for label, sub in (('x == xmax', {X: Rat.atom('self.xmax')}), ('x == xmin', {X: Rat.atom('self.xmin')}),
                           ('y == ymax', {Y: Rat.atom('self.ymax')}), ('y == ymin', {Y: Rat.atom('self.ymin')})):
            def oracle(c, sub=sub):
                if c.kind != 'cmp' or not (isinstance(c.a, Rat) and isinstance(c.b, Rat)):
                    return None
                d = c.a - c.b
                for k_, v_ in sub.items():
                    d = d.subst(k_, v_)
                d = d.subst('float(%s)' % X, sub.get(X, Rat.atom(X))).subst('float(%s)' % Y, sub.get(Y, Rat.atom(Y)))
                sign = None
                if wq.rel.is_zero(d):
                    sign = 0
                elif wq.rel.is_zero(d - width) or wq.rel.is_zero(d - height):
                    sign = 1
                elif wq.rel.is_zero(d + width) or wq.rel.is_zero(d + height):
                    sign = -1
                if sign is None:
                    return None
                return {'<': sign < 0, '<=': sign <= 0, '==': sign == 0, '!=': sign != 0}[c.op]
            vals = [cond_eval(c, oracle) for c, _ in o.state.conds]
            # the path is taken at this border point if its last test holds there and no earlier test is known to fail
            if vals and vals[-1] is True and not any(v is False for v in vals[:-1]):
                ctx.violation('C08.I', f, 'every coordinate of the closed extent [xmin, xmax] x [ymin, ymax] is mapped to a cell (only points outside are refused)',
                              {'point refused': label, 'test that refuses it': repr(o.state.conds[-1][0]),
                               'why': 'with margin 0 the extreme vertices of the data lie exactly on the border: a segment ending there is registered in no cell, '
                                      'and queries along it miss the feature'}, node=o.node, key='closed-extent:' + label)
    if n_none == 0:
        raise shape_error('__getCell: out-of-extent returns not found', f.loc())
    ctx.ok('C08.I', f, '__getCell admits the whole closed extent', node=f.node)
    h = _m(ctx, '__cellsCrossSegment')
    hb = body_nodocstring(h)
    hl = [x for x in hb if isinstance(x, ast.For)]
    if len(hl) != 1 or not any(isinstance(x, ast.For) for x in hl[0].body):
        raise shape_error('__cellsCrossSegment: double loop not found', h.loc())
    hli = [x for x in hl[0].body if isinstance(x, ast.For)][0]
    for nm, res in _bbox_cases(h, hb, hl[0], hli, h.params[1], h.params[2]).items():
        ctx.check(res['outside'] is None, 'C08.I', h, 'the %s examined for a segment inside the closed extent all exist in the grid' % nm,
                  witness={'case': res['outside'], 'cases evaluated': res['cases'],
                           'why': 'a vertex on the upper border floors to index == size; the cell list is used to address the grid (IndexError)'},
                  node=hl[0], key='clamp:cells:' + nm)


def rule_T(ctx):
    """C08.T all consecutive vertex pairs are visited"""
    # incremental registration of network edges
    a = ctx.prog.func(NET + '.addEdge')
    w = Walker(a, loop_mode='skip')
    outs = [o for o in w.run(body_nodocstring(a), State())]
    reg = [(o, e) for o in outs for e in o.state.events if e.kind == 'call' and e.name == 'addFeature']
    if not reg:
        raise shape_error('Network.addEdge: incremental index registration not found', a.loc())
    for o, e in reg[:1]:
        app = [x for x in o.state.events if x.kind == 'call' and x.name == 'append' and 'idx_edges' in vr(x.recv)]
        ok = isinstance(e.args[1], Rat) and w.rel.is_zero(e.args[1] - (Rat.atom('self.getNumberOfEdges()') - Rat.const(1))) and \
            bool(app) and all(x.seq < e.seq for x in app) and vr(e.args[0]) == '%s.geom' % a.params[1]
        ctx.check(ok, 'C08.T', a,
                  'an edge added after the index was built is registered under its own position (number of edges - 1, counted after insertion)',
                  witness={'registered under': vr(e.args[1]), 'why': 'queries then return a position that designates another edge (or none)'},
                  node=e.node, key='incremental')
    # the extent of an index over a network is the extent of the edge GEOMETRIES (what is registered), not of the nodes
    nb = ctx.prog.func(NET + '.bbox')
    reads = set()
    seen = set()

    def scan(fi, depth=0):
        if fi.qual in seen or depth > 3:
            return
        seen.add(fi.qual)
        for n_ in ast.walk(fi.node):
            if isinstance(n_, ast.Attribute):
                reads.add(n_.attr)
            if isinstance(n_, ast.Call) and isinstance(n_.func, ast.Attribute) and isinstance(n_.func.value, ast.Name) and n_.func.value.id == 'self':
                cal = ctx.prog.maybe_func(NET + '.' + n_.func.attr)
                if cal is not None:
                    scan(cal, depth + 1)
    scan(nb)
    uses_geom = 'geom' in reads
    uses_nodes_only = not uses_geom and bool(reads & {'NODES', 'coord', '_Network__idx_nodes', '__idx_nodes'})
    if not uses_geom and not uses_nodes_only:
        raise shape_error('Network.bbox: source of the extent not understood (reads %s)' % sorted(reads), nb.loc())
    ctx.check(uses_geom, 'C08.T', nb, 'the extent of a network (which sizes the index grid) is computed from the edge geometries that are registered in the index',
              witness={'attributes read by bbox() and the methods it calls': sorted(reads),
                       'why': 'an edge bulging out of the hull of the nodes has vertices outside the grid: __getCell refuses them and addFeature skips those segments, '
                              'so queries near them miss the edge'}, node=nb.node, key='network-extent')


def rule_K(ctx):
    """C08.K registration bookkeeping: the (cell, feature) key tested is the key recorded"""
    f = _m(ctx, '__addSegment')
    w = Walker(f, loop_mode='once')
    apps = []
    for o in w.run(body_nodocstring(f), State()):
        for e in o.state.events:
            if e.kind == 'call' and e.name == 'append' and 'grid' in vr(e.recv) and not any(e.node is x[0].node for x in apps):
                adds = [a for a in o.state.events if a.kind == 'call' and a.name == 'add' and a.seq > e.seq]
                apps.append((e, adds))
    if not apps:
        raise shape_error('__addSegment: registration of the feature in a cell not found', f.loc())
    import re
    for e, adds in apps:
        m = re.match(r'^self\.grid\[(.+)\]\[(.+)\]$', vr(e.recv))
        if not m:
            raise shape_error('__addSegment: cell written is not self.grid[i][j]', f.loc(e.node))
        cell = (m.group(1), m.group(2))
        data = vr(e.args[0])
        tested = []
        for c, _ in e.conds:
            for cj in c.conjuncts():
                inner = cj.items[0] if cj.kind == 'not' else None
                if inner is not None and inner.kind == 'in' and False:
                    pass
                t = repr(cj)
                mm = re.match(r'^not \((.+), (.+), (.+)\) in (.+)$', t)
                if mm:
                    tested.append((mm.group(1), mm.group(2), mm.group(3), mm.group(4)))
        for a in adds:
            key = a.args[0]
            if not (isinstance(key, tuple) and len(key) == 3):
                continue
            got = tuple(vr(x) for x in key)
            ctx.check(got == cell + (data,), 'C08.K', f, 'the bookkeeping entry recorded for a registration is (column, row, feature) of the cell just written',
                      witness={'cell written': list(cell), 'entry recorded': list(got),
                               'why': 'the entry marks another cell as done: when the feature later crosses that cell it is not registered there, and queries in it miss the feature'},
                      node=a.node, key='inventory-key')
            for tk in tested:
                if tk[3] == vr(a.recv):
                    ctx.check(tk[:3] == got, 'C08.K', f, 'the bookkeeping entry tested before a registration is the one recorded after it',
                              witness={'tested': list(tk[:3]), 'recorded': list(got)}, node=a.node, key='inventory-test')


def rule_Q(ctx):
    """C08.Q registration and every query form on the finite case domain (no false negatives).

    The index code depends on coordinates only through floor() and comparisons with integers, on the grid only through its two
    sizes, and never looks inside the registered data.  SpatialIndex methods are interpreted (tlint.orders; nothing is executed) on a
    non-square 3 x 2 grid of unit cells whose cells hold one marker each, with vertices on the integrality classes {k, k + 1/2}
    including the closed upper border, tracks of three vertices, window radii 0..3."""
    import itertools
    import math
    from .. import absint, orders
    f0 = _m(ctx, '__getCell')
    CS, LS = 3, 2

    # positions and observations are the repository's own ENUCoords / Obs objects
    fn = absint.funcs(ctx, 'tracklib.core.spatial_index', {})
    _EN = absint.classref(ctx, 'tracklib.core.obs_coords.ENUCoords', fn)

    def Coord(x, y, z=0):
        c_ = _EN(x, y, z)
        c_.x, c_.y = x, y               # (kept for the checker's own reading; the interpreted code sees the record)
        return c_

    def ObsS(c):
        return absint.real_obs(ctx, fn, c)

    _T = absint.classref(ctx, 'tracklib.core.track.Track', fn)

    def TrackS(coords):
        # a track of the repository's own Track class (its accessors - size, getObs, getObsList, iteration ... - are the code's)
        t_ = _T([ObsS(c) for c in coords], 'u', 't')
        t_.obs = t_.fields['_Track__POINTS']
        return t_

    def index(fill=True):
        grid = [[([('cell', i, j)] if fill else []) for j in range(LS)] for i in range(CS)]
        return _make_index(ctx, fn, CS, LS, grid)

    def cell_of(c):
        return (min(math.floor(c.x), CS - 1), min(math.floor(c.y), LS - 1))

    def window(cell, u):
        return {('cell', i, j) for i in range(max(cell[0] - u, 0), min(cell[0] + u + 1, CS)) for j in range(max(cell[1] - u, 0), min(cell[1] + u + 1, LS))}

    def between(c1, c2):
        """cells certainly met by the segment: those of its end points, and for an axis-parallel segment off the grid lines the cells in between"""
        a, b = cell_of(c1), cell_of(c2)
        out = {a, b}
        if c1.y == c2.y and c1.y != math.floor(c1.y):
            out |= {(i, a[1]) for i in range(min(a[0], b[0]), max(a[0], b[0]) + 1)}
        if c1.x == c2.x and c1.x != math.floor(c1.x):
            out |= {(a[0], j) for j in range(min(a[1], b[1]), max(a[1], b[1]) + 1)}
        return out
    n = {'cases': 0}
    found = []

    def call(what, method, *args, **kw):
        n['cases'] += 1
        try:
            return index().call(method, *args, **kw) if not isinstance(what, orders.Obj) else what.call(method, *args, **kw)
        except orders.Unsupported as ex:
            raise shape_error('SpatialIndex.%s not interpretable: %s' % (method, ex), f0.loc())

    def need(key, desc, got, want, case, method):
        gs = set(got) if isinstance(got, (list, set, tuple)) else None
        if gs is None or not set(want) <= gs:
            if not any(k == key for k, _ in found):
                fi = ctx.prog.method(SI, method) if hasattr(ctx.prog, 'method') else None
                found.append((key, (desc, dict(case, **{'returned': sorted(map(repr, gs)) if gs is not None else repr(got),
                                                       'missing': sorted(map(repr, set(want) - (gs or set())))}), method)))
    xs = [0.0, 0.5, 1.0, 2.5, float(CS)]
    ys = [0.0, 0.5, 1.5, float(LS)]
    pts = [Coord(x, y) for x in xs for y in ys]
    try:
        for i, j, u in itertools.product(range(CS), range(LS), range(4)):
            got = call(None, '__neighboringcells', i, j, u, False)
            want = {(a, b) for _, a, b in window((i, j), u)}
            gs = set(tuple(c) for c in got) if isinstance(got, (list, set)) else None
            if gs is None or not want <= gs or any(not (0 <= a < CS and 0 <= b < LS) for a, b in gs):
                if not any(k == 'window' for k, _ in found):
                    found.append(('window', ('the window of radius u around cell (i, j) is every cell (i-u..i+u, j-u..j+u) of the grid, columns clipped by the column count and rows by the row count',
                                             {'cell': [i, j], 'u': u, 'grid (columns, rows)': [CS, LS], 'returned': sorted(gs) if gs is not None else repr(got),
                                              'expected': sorted(want)}, '__neighboringcells')))
            need('req-ij', 'request(i, j) returns the data registered in cell (i, j)', call(None, 'request', i, j), [('cell', i, j)], {'cell': [i, j]}, 'request')
            need('nb-ij', 'neighborhood(i, j, u) returns the data of every cell of the window', call(None, 'neighborhood', i, j, u), window((i, j), u),
                 {'cell': [i, j], 'u': u}, 'neighborhood')
        for c in pts:
            need('req-pt', 'request(point) returns the data of the cell containing the point (closed upper border folded into the last cell)',
                 call(None, 'request', c), [('cell',) + cell_of(c)], {'point': repr(c)}, 'request')
            for u in (0, 1, 2):
                need('nb-pt', 'neighborhood(point, unit=u) returns the data of every cell within u cells of the one containing the point',
                     call(None, 'neighborhood', c, None, u), window(cell_of(c), u), {'point': repr(c), 'u': u}, 'neighborhood')
                need('nb-pt', 'neighborhood(point, unit=u) returns the data of every cell within u cells of the one containing the point',
                     call(None, 'neighborhood', c, unit=u), window(cell_of(c), u), {'point': repr(c), 'u': u, 'call': 'unit passed by keyword'}, 'neighborhood')
        for c1, c2 in itertools.permutations(pts[::3] + [Coord(0.5, 0.5), Coord(2.5, 0.5), Coord(0.5, 1.5), Coord(2.5, 1.5)], 2):
            cells = between(c1, c2)
            need('req-seg', 'request([p1, p2]) returns the data of every cell the segment passes through',
                 call(None, 'request', [c1, c2]), [('cell',) + c_ for c_ in cells], {'segment': [repr(c1), repr(c2)]}, 'request')
            for u in (0, 1):
                want = set()
                for c_ in cells:
                    want |= window(c_, u)
                need('nb-seg', 'neighborhood([p1, p2], unit=u) returns the data of every cell within u cells of a crossed cell',
                     call(None, 'neighborhood', [c1, c2], None, u), want, {'segment': [repr(c1), repr(c2)], 'u': u}, 'neighborhood')
        for c1, c2 in ((Coord(2.25, 0.25), Coord(2.75, 0.75)), (Coord(0.25, 1.25), Coord(0.75, 1.75)), (Coord(1.25, 0.5), Coord(1.75, 0.5))):
            need('req-seg', 'request([p1, p2]) returns the data of every cell the segment passes through',
                 call(None, 'request', [c1, c2]), [('cell',) + cell_of(c1)], {'segment (strictly inside one cell)': [repr(c1), repr(c2)]}, 'request')
            ix = index(fill=False)
            call(ix, 'addFeature', TrackS([c1, c2]), 5)
            if 5 not in ix.fields['grid'][cell_of(c1)[0]][cell_of(c1)[1]] and not any(k == 'register' for k, _ in found):
                found.append(('register', ('addFeature registers the feature number in every cell its segments pass through',
                                           {'track (strictly inside one cell)': [repr(c1), repr(c2)], 'cells without the feature': [cell_of(c1)]}, 'addFeature')))
        for tri in ([Coord(0.5, 0.5), Coord(2.5, 0.5), Coord(2.5, 1.5)], [Coord(3.0, 2.0), Coord(0.5, 1.5), Coord(0.0, 0.0)], [Coord(1.0, 1.0), Coord(1.0, 1.0), Coord(2.5, 1.5)]):
            t = TrackS(tri)
            cells = between(tri[0], tri[1]) | between(tri[1], tri[2])
            case = {'track': [repr(c) for c in tri]}
            need('req-trk', 'request(track) returns the data of every cell crossed by any of its segments (all consecutive vertex pairs)',
                 call(None, 'request', t), [('cell',) + c_ for c_ in cells], case, 'request')
            for u in (0, 1, 2):
                want = set()
                for c_ in cells:
                    want |= window(c_, u)
                need('nb-trk', 'neighborhood(track, unit=u) returns the data of every cell within u cells of a cell crossed by the track',
                     call(None, 'neighborhood', t, None, u), want, dict(case, u=u), 'neighborhood')
            ix = index(fill=False)
            call(ix, 'addFeature', t, 7)
            miss = [c_ for c_ in cells if 7 not in ix.fields['grid'][c_[0]][c_[1]]]
            if miss and not any(k == 'register' for k, _ in found):
                found.append(('register', ('addFeature registers the feature number in every cell its segments pass through',
                                           dict(case, **{'cells without the feature': sorted(miss)}), 'addFeature')))
        # oblique segments, among them segments that only cut a small triangle off a corner of a cell (legs of 0.008 cell side): the
        # cells crossed are those in which the segment, clipped to the cell, keeps a positive length (by the checker: Liang-Barsky)
        def crossed(c1, c2):
            out = set()
            for i_ in range(CS):
                for j_ in range(LS):
                    t0, t1 = 0.0, 1.0
                    ok_ = True
                    for p_, q_ in ((-(c2.x - c1.x), c1.x - i_), (c2.x - c1.x, i_ + 1 - c1.x), (-(c2.y - c1.y), c1.y - j_), (c2.y - c1.y, j_ + 1 - c1.y)):
                        if p_ == 0:
                            if q_ < 0:
                                ok_ = False
                            continue
                        r_ = q_ / p_
                        if p_ < 0:
                            t0 = max(t0, r_)
                        else:
                            t1 = min(t1, r_)
                    if ok_ and t1 - t0 > 1e-6:
                        out.add((i_, j_))
            return out
        for (x1, y1), (x2, y2) in (((0.1, 1.892), (1.892, 0.1)), ((0.108, 0.1), (1.9, 1.892)), ((0.3, 0.2), (2.7, 1.6)), ((2.9, 0.1), (1.108, 1.892)), ((0.25, 1.9), (2.75, 0.15)),
                                   ((1.1, 1.9), (2.892, 0.108)), ((0.05, 0.992), (2.95, 1.02))):
            for a_, b_ in (((x1, y1), (x2, y2)), ((x2, y2), (x1, y1))):
                c1, c2 = Coord(*a_), Coord(*b_)
                cells = crossed(c1, c2)
                case = {'segment': [list(a_), list(b_)], 'cells crossed (by clipping)': sorted(cells)}
                need('req-seg', 'request([p1, p2]) returns the data of every cell the segment passes through',
                     call(None, 'request', [c1, c2]), [('cell',) + c_ for c_ in cells], case, 'request')
                ix = index(fill=False)
                call(ix, 'addFeature', TrackS([c1, c2]), 9)
                miss = [c_ for c_ in cells if 9 not in ix.fields['grid'][c_[0]][c_[1]]]
                if miss and not any(k == 'register' for k, _ in found):
                    found.append(('register', ('addFeature registers the feature number in every cell its segments pass through',
                                               dict(case, **{'cells without the feature': sorted(miss)}), 'addFeature')))
    except (IndexError, KeyError, TypeError, AttributeError, ZeroDivisionError) as ex:
        found.append(('fails', ('registration and queries do not fail inside the closed extent', {'exception': '%s: %s' % (type(ex).__name__, ex)}, 'request')))
    # construction: the grid covers the whole (margin-enlarged) extent of the data and feature n is registered under n
    class BboxS(orders.PyStub):
        isa = ('Bbox',)

        def __init__(self, x0, x1, y0, y1):
            self.v = [x0, x1, y0, y1]

        def copy(self):
            return BboxS(*self.v)

        def addMargin(self, m=0.05):
            dx, dy = self.getDimensions()
            self.v = [self.v[0] - m * dx, self.v[1] + m * dx, self.v[2] - m * dy, self.v[3] + m * dy]

        def getDimensions(self):
            return (self.v[1] - self.v[0], self.v[3] - self.v[2])

        def getDx(self):
            return self.v[1] - self.v[0]

        def getDy(self):
            return self.v[3] - self.v[2]

        def asTuple(self):
            return tuple(self.v)

        def getXmin(self):
            return self.v[0]

        def getXmax(self):
            return self.v[1]

        def getYmin(self):
            return self.v[2]

        def getYmax(self):
            return self.v[3]

    class Coll(orders.PyStub):
        isa = ('TrackCollection',)

        def __init__(self, tracks, bb):
            self.tracks, self.bb = tracks, bb

        def bbox(self):
            return self.bb.copy()

        def size(self):
            return len(self.tracks)

        def __len__(self):
            return len(self.tracks)

        def __getitem__(self, k):
            return self.tracks[k]

        def __iter__(self):
            return iter(self.tracks)
    try:
        for (w_, h_), res, margin in (((10.0, 4.0), (0.9, 0.9), 0.0), ((10.0, 0.39), None, 0.0), ((7.0, 5.0), (2.0, 2.0), 0.0), ((7.0, 5.0), (3.0, 2.0), 0.05), ((0.43, 9.0), None, 0.05), ((4.0, 9.0), (0.3, 0.7), 0.05)):
            trs = [TrackS([Coord(0.0, 0.0), Coord(w_, h_)]), TrackS([Coord(w_, 0.0), Coord(w_, h_)]), TrackS([Coord(0.0, h_), Coord(w_ / 2, h_)])]
            if res is not None and margin == 0.0:
                # a track of a single fix (no segment to register) ahead of the others: the others keep their numbers
                trs = [TrackS([Coord(w_ / 3, h_ / 3)])] + trs[:1] + [TrackS([Coord(w_ / 2, h_ / 2)])] + trs[1:]
            coll = Coll(trs, BboxS(0.0, w_, 0.0, h_))
            ix = absint.instance(ctx, SI, {}, fn)
            n['cases'] += 1
            try:
                ix.call('__init__', coll, res, margin, False)
            except orders.Unsupported as ex:
                raise shape_error('SpatialIndex.__init__ not interpretable: %s' % ex, f0.loc())
            F = ix.fields
            case = {'extent of the data': [w_, h_], 'resolution': res, 'margin': margin}
            ok = all(k in F for k in ('csize', 'lsize', 'dX', 'dY', 'xmin', 'xmax', 'ymin', 'ymax', 'grid'))
            if not ok:
                raise shape_error('SpatialIndex.__init__: fields not understood', f0.loc())
            cover = F['csize'] * F['dX'] >= (F['xmax'] - F['xmin']) * (1 - 1e-12) and F['lsize'] * F['dY'] >= (F['ymax'] - F['ymin']) * (1 - 1e-12)
            dims = len(F['grid']) == F['csize'] and all(len(col) == F['lsize'] for col in F['grid'])
            if not (cover and dims) and not any(k == 'cover' for k, _ in found):
                found.append(('cover', ('the grid allocated covers the whole extent: columns x cell width >= extent width, rows x cell height >= extent height, grid[column][row] is columns x rows',
                                        dict(case, **{'columns, rows': [F['csize'], F['lsize']], 'cell width, height': [F['dX'], F['dY']],
                                                      'covered': [F['csize'] * F['dX'], F['lsize'] * F['dY']], 'extent': [F['xmax'] - F['xmin'], F['ymax'] - F['ymin']],
                                                      'why': 'vertices in the uncovered strip map to a cell index >= the grid size: their segments are skipped at registration'}), '__init__')))
                continue
            for num, t in enumerate(trs):
                if len(t.obs) < 2:
                    continue
                for o_ in t.obs:
                    c = ix.call('__getCell', o_.fields['position'])
                    if c is None:
                        cell = None
                    else:
                        cell = (min(math.floor(c[0]), F['csize'] - 1), min(math.floor(c[1]), F['lsize'] - 1))
                    if (cell is None or num not in F['grid'][cell[0]][cell[1]]) and not any(k == 'initial' for k, _ in found):
                        found.append(('initial', ('at construction feature number n of the collection is registered under n in the cells of its vertices (extreme vertices lie on the border of the extent)',
                                                  dict(case, **{'feature': num, 'vertex': [o_.fields['position'].x, o_.fields['position'].y], 'cell': cell}), '__init__')))
    except (IndexError, KeyError, TypeError, AttributeError, ZeroDivisionError) as ex:
        found.append(('fails', ('construction does not fail', {'exception': '%s: %s' % (type(ex).__name__, ex)}, '__init__')))
    for key, (desc, wit, method) in found:
        ctx.violation('C08.Q', _m(ctx, method) if method.startswith('__') else ctx.prog.func(SI + '.' + method), desc, wit, key=key)
    if not found:
        for desc in ('__neighboringcells: full clipped (2u+1)^2 window on the 3 x 2 grid, u = 0..3', 'request(i, j) / request(point) / request(segment) / request(track) return the data of every cell met',
                     'neighborhood(i, j, u) / (point) / (segment) / (track) return the data of every cell within u cells of a cell met, u reaching the window whatever the call form',
                     'addFeature registers a track in every cell its segments pass through'):
            ctx.ok('C08.Q', f0, desc + ' [%d interpreted calls]' % n['cases'])
    ctx.extra['C08.Q interpreted calls'] = n['cases']


def rule_S(ctx):
    """C08.S the same obligations on grids of other shapes - more rows than columns, a single column, a single row: registration of
    tracks that run along cell centres (every row, every column, a U shape), point / cell / track queries, windows of every radius up to
    beyond the larger grid dimension"""
    import itertools
    import math
    from .. import absint, orders
    f0 = _m(ctx, '__getCell')

    # positions and observations are the repository's own ENUCoords / Obs objects
    fn = absint.funcs(ctx, 'tracklib.core.spatial_index', {})
    _EN = absint.classref(ctx, 'tracklib.core.obs_coords.ENUCoords', fn)

    def Coord(x, y, z=0):
        c_ = _EN(x, y, z)
        c_.x, c_.y = x, y               # (kept for the checker's own reading; the interpreted code sees the record)
        return c_

    def ObsS(c):
        return absint.real_obs(ctx, fn, c)

    _T = absint.classref(ctx, 'tracklib.core.track.Track', fn)

    def TrackS(coords):
        # a track of the repository's own Track class (its accessors - size, getObs, getObsList, iteration ... - are the code's)
        t_ = _T([ObsS(c) for c in coords], 'u', 't')
        t_.obs = t_.fields['_Track__POINTS']
        return t_
    found = {}
    n_calls = 0
    for CS, LS in ((2, 5), (1, 4), (4, 1), (3, 3)):
        def index(fill):
            grid = [[([('cell', i, j)] if fill else []) for j in range(LS)] for i in range(CS)]
            return _make_index(ctx, fn, CS, LS, grid)
        shape = {'grid (columns, rows)': [CS, LS]}

        def call(ix, method, *a, **kw):
            nonlocal n_calls
            n_calls += 1
            try:
                return ix.call(method, *a, **kw)
            except orders.Unsupported as ex:
                raise shape_error('SpatialIndex.%s not interpretable: %s' % (method, ex), f0.loc())
        try:
            # windows of every radius
            for i, j, u in itertools.product(range(CS), range(LS), range(0, max(CS, LS) + 2)):
                want = {(a, b) for a in range(max(i - u, 0), min(i + u + 1, CS)) for b in range(max(j - u, 0), min(j + u + 1, LS))}
                got = call(index(True), '__neighboringcells', i, j, u, False)
                gs = set(tuple(c) for c in got) if isinstance(got, (list, set)) else None
                if gs is None or not want <= gs or any(not (0 <= a < CS and 0 <= b < LS) for a, b in gs):
                    found.setdefault('window', ('__neighboringcells', 'the window of radius u around a cell is every cell within u columns and u rows of it, clipped to the grid only',
                                                dict(shape, cell=[i, j], u=u, returned=sorted(gs) if gs is not None else repr(got), expected=sorted(want))))
                data = call(index(True), 'neighborhood', Coord(i + 0.5, j + 0.5), None, u)
                wd = {('cell', a, b) for a, b in want}
                if not isinstance(data, (list, set, tuple)) or not wd <= set(data):
                    found.setdefault('nb-pt', ('neighborhood', 'neighborhood(point, unit=u) returns the data of every cell within u cells of the one containing the point',
                                               dict(shape, point=[i + 0.5, j + 0.5], u=u, missing=sorted(map(repr, wd - set(data if isinstance(data, (list, set, tuple)) else []))))))
            # a history of queries on ONE index object: a nearest search (unit = -1) from a cell, then the windows of every radius from
            # the same cell (and the other way round) - every answer is that of a fresh index
            for i, j in itertools.product(range(CS), range(LS)):
                for fill_label, grid_of in (('every cell holds data', lambda: [[[('cell', a, b)] for b in range(LS)] for a in range(CS)]),
                                            ('only the last cell holds data', lambda: [[([('cell', a, b)] if (a, b) == (CS - 1, LS - 1) else []) for b in range(LS)] for a in range(CS)])):
                    for first_nearest in (True, False):
                        ix = _make_index(ctx, fn, CS, LS, grid_of())
                        filled = {(a, b) for a in range(CS) for b in range(LS) if ix.fields['grid'][a][b]}
                        steps = ([-1] if first_nearest else []) + list(range(0, max(CS, LS) + 1)) + ([] if first_nearest else [-1, 1, 0])
                        for u in steps:
                            data = call(ix, 'neighborhood', Coord(i + 0.5, j + 0.5), None, u)
                            if u < 0:
                                continue
                            want = {(a, b) for a in range(max(i - u, 0), min(i + u + 1, CS)) for b in range(max(j - u, 0), min(j + u + 1, LS))} & filled
                            wd = {('cell', a, b) for a, b in want}
                            if not isinstance(data, (list, set, tuple)) or not wd <= set(data):
                                found.setdefault('nb-history', ('neighborhood', 'on an index that has already answered other queries, neighborhood(point, unit=u) still returns the data of every cell within u cells of the one containing the point',
                                                                dict(shape, point=[i + 0.5, j + 0.5], cells=fill_label, **{'queries so far (unit)': steps[:steps.index(u) + 1] if u in steps else steps, 'missing': sorted(map(repr, wd - set(data if isinstance(data, (list, set, tuple)) else [])))})))
            # tracks along cell centres: registration and queries
            lines = []
            for j in range(LS):
                lines.append(('row %d' % j, [Coord(0.5, j + 0.5), Coord(CS - 0.5, j + 0.5)], {(i, j) for i in range(CS)}))
            for i in range(CS):
                lines.append(('column %d' % i, [Coord(i + 0.5, 0.5), Coord(i + 0.5, LS - 0.5)], {(i, j) for j in range(LS)}))
            if CS >= 2 and LS >= 2:
                lines.append(('U shape', [Coord(0.5, LS - 0.5), Coord(0.5, 0.5), Coord(CS - 0.5, 0.5), Coord(CS - 0.5, LS - 0.5)],
                              {(0, j) for j in range(LS)} | {(i, 0) for i in range(CS)} | {(CS - 1, j) for j in range(LS)}))
            for num, (lname, coords, cells) in enumerate(lines):
                ix = index(False)
                t = TrackS(coords)
                call(ix, 'addFeature', t, num)
                miss = sorted(c_ for c_ in cells if num not in ix.fields['grid'][c_[0]][c_[1]])
                if miss:
                    found.setdefault('register', ('addFeature', 'addFeature registers the feature number in every cell its segments pass through',
                                                  dict(shape, track=lname, vertices=[repr(c) for c in coords], **{'cells without the feature': miss})))
                got = call(index(True), 'request', t)
                wd = {('cell',) + c_ for c_ in cells}
                if not isinstance(got, (list, set, tuple)) or not wd <= set(got):
                    found.setdefault('req-trk', ('request', 'request(track) returns the data of every cell crossed by any of its segments',
                                                 dict(shape, track=lname, missing=sorted(map(repr, wd - set(got if isinstance(got, (list, set, tuple)) else []))))))
                # two features sharing cells: both stay registered everywhere
                ix2 = index(False)
                call(ix2, 'addFeature', t, 0)
                other = lines[(num + 1) % len(lines)]
                call(ix2, 'addFeature', TrackS(other[1]), 1)
                miss2 = sorted(c_ for c_ in other[2] if 1 not in ix2.fields['grid'][c_[0]][c_[1]]) + sorted(c_ for c_ in cells if 0 not in ix2.fields['grid'][c_[0]][c_[1]])
                if miss2:
                    found.setdefault('register2', ('addFeature', 'registering a second feature leaves both features in all their cells',
                                                   dict(shape, tracks=[lname, other[0]], **{'cells without their feature': miss2})))
        except orders.PROGRAM_ERRORS as ex:
            found.setdefault('fails', ('request', 'registration and queries do not fail inside the extent', dict(shape, exception='%s: %s' % (type(ex).__name__, ex))))
    # special geometries on a 3 x 3 grid of unit cells: registered, then found again by a point query taken on them
    try:
        specials = {'a parked vehicle (all fixes at the same place)': [(1.5, 1.5)] * 3,
                    'a parked vehicle on a cell corner': [(1.0, 2.0)] * 2,
                    'a segment lying on a vertical grid line, inside one row': [(1.0, 1.2), (1.0, 1.8)],
                    'a segment lying on a horizontal grid line, inside one column': [(0.2, 2.0), (0.8, 2.0)],
                    'a segment lying on a vertical grid line, across the rows': [(2.0, 0.3), (2.0, 2.6)],
                    'a segment lying on a horizontal grid line, across the columns': [(0.4, 1.0), (2.7, 1.0)],
                    'two collinear horizontal legs inside one cell': [(1.2, 1.5), (1.5, 1.5), (1.8, 1.5)]}
        CS = LS = 3
        ENs = absint.classref(ctx, 'tracklib.core.obs_coords.ENUCoords', fn)       # the repository's own positions (equality with a tolerance)
        for sname, vs in specials.items():
            ix = _make_index(ctx, fn, CS, LS, [[[] for _ in range(LS)] for _ in range(CS)])
            n_calls += 1
            ix.call('addFeature', TrackS([ENs(float(v_[0]), float(v_[1]), 0.0) for v_ in vs]), 4)
            probes = list(vs) + [((a_[0] + b_[0]) / 2.0, (a_[1] + b_[1]) / 2.0) for a_, b_ in zip(vs, vs[1:])]
            for q_ in probes:
                n_calls += 1
                got = ix.call('request', Coord(*q_))
                if not isinstance(got, (list, set, tuple)) or 4 not in got:
                    found.setdefault('special', ('addFeature', 'a feature is found again by a point query taken on it, whatever its geometry (a single place, a segment lying on a grid line)',
                                                 {'grid (columns, rows)': [CS, LS], 'feature': sname, 'vertices': [list(v_) for v_ in vs], 'query point': list(q_), 'returned': sorted(got) if isinstance(got, (list, set, tuple)) else repr(got),
                                                  'cells holding the feature': sorted((i_, j_) for i_ in range(CS) for j_ in range(LS) if 4 in ix.fields['grid'][i_][j_])}))
                    break
    except orders.Unsupported as ex:
        raise shape_error('SpatialIndex.addFeature / request not interpretable: %s' % ex, f0.loc())
    except orders.PROGRAM_ERRORS as ex:
        found.setdefault('fails', ('addFeature', 'registration and queries do not fail inside the extent', {'feature': 'special geometries', 'exception': '%s: %s' % (type(ex).__name__, ex)}))
    # sub-millimetre scale (cells of 0.1 mm, positions that are the repository's own ENUCoords, whose equality has a 0.1 mm tolerance):
    # a track whose fixes are 0.07 mm apart is registered in every cell it crosses, and found again
    try:
        ENc = absint.classref(ctx, 'tracklib.core.obs_coords.ENUCoords', fn)
        sc = 1.0e-4
        for CS, LS in ((3, 2), (2, 4)):
            ix = _make_index(ctx, fn, CS, LS, [[[] for _ in range(LS)] for _ in range(CS)], scale=sc)
            xs_ = [0.5 + 0.7 * k for k in range(int((CS - 0.6) / 0.7) + 1)]
            coords = [ENc(x_ * sc, 0.5 * sc, 0.0) for x_ in xs_] + [ENc(xs_[-1] * sc, (0.5 + 0.7 * k) * sc, 0.0) for k in range(1, int((LS - 0.6) / 0.7) + 1)]
            cells = {(int(c_.fields['E'] / sc), int(c_.fields['N'] / sc)) for c_ in coords}
            n_calls += 1
            ix.call('addFeature', TrackS(coords), 7)
            miss = sorted(c_ for c_ in cells if 7 not in ix.fields['grid'][c_[0]][c_[1]])
            if miss:
                found.setdefault('register-small', ('addFeature', 'addFeature registers the feature in every cell its segments pass through, also when consecutive fixes are closer than 0.1 mm',
                                                    {'grid (columns, rows)': [CS, LS], 'cell size': sc, 'vertices': [[c_.fields['E'], c_.fields['N']] for c_ in coords], 'cells without the feature': miss}))
    except orders.Unsupported as ex:
        raise shape_error('SpatialIndex.addFeature not interpretable: %s' % ex, f0.loc())
    except orders.PROGRAM_ERRORS as ex:
        found.setdefault('fails', ('addFeature', 'registration does not fail inside the extent', {'scale': 'cells of 0.1 mm', 'exception': '%s: %s' % (type(ex).__name__, ex)}))
    for key, (method, desc, wit) in sorted(found.items()):
        ctx.violation('C08.S', _m(ctx, method) if method.startswith('__') else ctx.prog.func(SI + '.' + method), desc, wit, key=key)
    if not found:
        ctx.ok('C08.S', f0, 'windows of every radius, registration along rows / columns / a U shape, point and track queries on grids 2x5, 1x4, 4x1, 3x3 [%d interpreted calls]' % n_calls)
    ctx.extra['C08.S interpreted calls'] = n_calls


def rule_N(ctx):
    """C08.N a network and its index: the index built by createSpatialIndex covers every vertex of every edge geometry (curved edges that
    leave the hull of the junctions included), registers edge number k under k, and an edge added afterwards is registered under its own
    position; point queries on an edge return that edge"""
    import math
    from .. import absint, orders, netmodel
    f = ctx.prog.func('tracklib.core.network.Network.createSpatialIndex')
    H = netmodel.Harness(ctx)
    fn = H.fn
    for q in ('tracklib.core.spatial_index.SpatialIndex', 'tracklib.core.track_collection.TrackCollection', 'tracklib.core.bbox.Bbox'):
        if q not in ctx.prog.classes:
            raise anchor_error('class %s not found' % q, q)
        absint.classref(ctx, q, fn)
    absint.operator_table(ctx, fn)
    fn['__globals__']['NAN'] = float('nan')
    P, O = netmodel.P, netmodel.O
    P.__name__ = P.__qualname__ = 'ENUCoords'
    fn['ENUCoords'] = P
    fn['__globals__']['ENUCoords'] = P
    found = {}
    n_q = 0

    def build(edges_geom):
        """edges_geom: list of vertex lists; nodes are the end vertices (merged by position)"""
        net = H.Network()
        nodes = {}

        def node(xy):
            if xy not in nodes:
                nodes[xy] = H.Node(len(nodes), P(*xy))
            return nodes[xy]
        for k, g in enumerate(edges_geom):
            add(net, nodes, node, k, g)
        return net, nodes, node

    def add(net, nodes, node, k, g):
        tr = H.Track([O(P(*xy)) for xy in g], 'u', 'e%d' % k)
        e = H.Edge(k, tr)
        e.fields['orientation'] = 0
        e.fields['weight'] = 1.0
        net.call('addEdge', e, node(g[0]), node(g[-1]))

    def check(net, k, g, label, case):
        nonlocal n_q
        ix = net.fields.get('spatial_index')
        for (x0, y0), (x1, y1) in zip(g, g[1:]):
            for w in (0.0, 0.5, 1.0):
                px, py = x0 + w * (x1 - x0), y0 + w * (y1 - y0)
                n_q += 1
                try:
                    got = ix.call('request', P(px, py))
                except orders.Unsupported as ex:
                    raise shape_error('SpatialIndex.request not interpretable: %s' % ex, f.loc())
                except orders.PROGRAM_ERRORS as ex:
                    got = '%s: %s' % (type(ex).__name__, str(ex)[:120])
                if not isinstance(got, (list, set, tuple)) or k not in got:
                    found.setdefault(label, ('a point query taken on an edge of the network returns that edge (its position in the network)',
                                             dict(case, edge=k, **{'point on the edge': [px, py], 'returned': got if not isinstance(got, (list, set, tuple)) else sorted(got)})))
                    return
    nets = {
        'grid of straight edges': [[(0, 0), (10, 0)], [(10, 0), (10, 10)], [(0, 0), (0, 10)], [(0, 10), (10, 10)]],
        'a hairpin whose vertices leave the hull of the junctions': [[(0, 0), (10, 0)], [(10, 0), (14, 6), (10, 14), (0, 10)], [(0, 10), (0, 0)]],
        'a loop attached to one junction (both ends on the same node)': [[(0, 0), (10, 0)], [(10, 0), (16, -5), (20, 0), (16, 5), (10, 0)]],
    }
    for label, geoms in nets.items():
        for res in ((2.0, 2.0), (4.0, 3.0)):
            case = {'network': label, 'resolution': res}
            net, nodes, node = build(geoms)
            try:
                net.call('createSpatialIndex', res, 0.05, False)
            except orders.Unsupported as ex:
                raise shape_error('Network.createSpatialIndex not interpretable: %s' % ex, f.loc())
            except orders.PROGRAM_ERRORS as ex:
                found.setdefault('fails', ('the index of a network can be built', dict(case, exception='%s: %s' % (type(ex).__name__, str(ex)[:160]))))
                continue
            for k, g in enumerate(geoms):
                check(net, k, g, 'initial', case)
            # an edge added after the index exists (inside the indexed extent)
            late = [(0, 0), (5, 5), (10, 10)] if label.startswith('grid') else [(0, 0), (5, 3), (10, 0)]
            k = len(geoms)
            try:
                add(net, nodes, node, k, late)
            except orders.Unsupported as ex:
                raise shape_error('Network.addEdge not interpretable: %s' % ex, f.loc())
            except orders.PROGRAM_ERRORS as ex:
                found.setdefault('fails', ('an edge can be added to an indexed network', dict(case, exception='%s: %s' % (type(ex).__name__, str(ex)[:160]))))
                continue
            check(net, k, late, 'late', dict(case, **{'edge added after the index was built': late}))
    for key, (desc, wit) in sorted(found.items()):
        ctx.violation('C08.N', f, desc, wit, node=f.node, key=key)
    if not found:
        ctx.ok('C08.N', f, 'point queries on every edge (initial and added later; straight, hairpin, loop) return the edge under its own position [%d queries]' % n_q, node=f.node)
    ctx.extra['C08.N queries'] = n_q


RULES = [
    ('C08.Q', rule_Q, 'quick'),
    ('C08.S', rule_S, 'quick'),
    ('C08.N', rule_N, 'quick'),
    ('C08.U', rule_U, 'quick'),
]
MIN_OBLIGATIONS = 5
