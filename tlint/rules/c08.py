"""C08 - grid spatial index (tracklib/core/spatial_index.py, Network.addEdge)."""
import ast
import re

from ..alg import Rat
from ..loader import shape_error, anchor_error
from ..sx import Walker, State
from ..util import body_nodocstring, names_stored, unparse

SI = 'tracklib.core.spatial_index.SpatialIndex'
NET = 'tracklib.core.network.Network'

EXPLANATION = (
    "Static analysis of SpatialIndex.__getCell / addFeature / __cellsCrossSegment / request / neighborhood / "
    "__neighboringcells / groundDistanceToUnits and Network.addEdge: one coordinate->cell formula (x with dX, y with dY) "
    "shared by registration and every query, integer cells by floor; the cells examined for a segment are the "
    "inclusive cell bounding box of its two floored end points and each is tested for containment and against "
    "exactly the four sides of its unit square; a neighbourhood of radius u is the full clipped (2u+1)^2 window with "
    "columns clipped by the column count and rows by the row count; a ground distance is converted with the smaller "
    "cell side (conservative); a fractional index that may equal the grid size is clamped before it addresses the "
    "grid; consecutive vertex pairs are all visited; a network edge added after the index exists is registered under "
    "its own position.")
ASSUMPTIONS = ["query points and vertices inside the index extent", "the straddle test isSegmentIntersects is complete for touching/collinear cases (real geometry, not decided)"]
TECHNIQUE = "sibling/formula agreement (F5/F8), affine range and side-set rules (F3), monotonicity polarity of the distance conversion (F2)"


def vr(v):
    if isinstance(v, Rat):
        a = v.single_atom()
        return a if a is not None else repr(v)
    return repr(v)


def _m(ctx, suffix):
    for q, fi in ctx.prog.functions.items():
        if q.startswith(SI + '.') and fi.name.endswith(suffix):
            return fi
    raise anchor_error('SpatialIndex.*%s not found' % suffix, SI)


def rule_M(ctx):
    """C08.M one coordinate -> cell mapping"""
    f = _m(ctx, '__getCell')
    co = f.params[1]
    w = Walker(f, loop_mode='skip')
    outs = [o for o in w.run(body_nodocstring(f), State()) if o.kind == 'return']
    pairs = [o for o in outs if isinstance(o.value, tuple) and len(o.value) == 2]
    if len(pairs) != 1:
        raise shape_error('__getCell: expected one (idx, idy) return', f.loc())
    X, Y = Rat.atom('%s.getX()' % co), Rat.atom('%s.getY()' % co)
    ex = (X - Rat.atom('self.xmin')) / Rat.atom('self.dX')
    ey = (Y - Rat.atom('self.ymin')) / Rat.atom('self.dY')
    ix, iy = pairs[0].value
    ctx.check(isinstance(ix, Rat) and w.rel.is_zero(ix - ex) and isinstance(iy, Rat) and w.rel.is_zero(iy - ey), 'C08.M', f,
              'fractional cell = ((x - xmin)/dX, (y - ymin)/dY)', witness={'found': [vr(ix), vr(iy)], 'expected': [vr(ex), vr(ey)]},
              node=pairs[0].node, key='formula')
    # cell sizes: dX = ax / csize, dY = ay / lsize ; grid allocated csize x lsize
    init = ctx.prog.func(SI + '.__init__')
    t = unparse(init.node)
    ctx.recognise('self.dX = ax / self.csize' in t and 'self.dY = ay / self.lsize' in t and 'for i in range(self.csize)' in t and
              'for j in range(self.lsize)' in t, 'C08.M', init, 'cell width/height are extent / column count, extent / row count; grid[column][row] is csize x lsize',
              witness={}, node=init.node, key='sizes')
    # every consumer goes through __getCell and floors
    users = {}
    for q, fi in ctx.prog.functions.items():
        if q.startswith(SI + '.') and fi is not f:
            n = sum(1 for c in ast.walk(fi.node) if isinstance(c, ast.Call) and getattr(c.func, 'attr', None) == '__getCell')
            own = [c for c in ast.walk(fi.node) if isinstance(c, ast.BinOp) and isinstance(c.op, ast.Div) and
                   re.search(r'self\.d[XY]$', unparse(c.right) or '') and 'xmin' in unparse(c.left) + 'ymin']
            priv = [c for c in ast.walk(fi.node) if isinstance(c, ast.BinOp) and isinstance(c.op, ast.Div) and
                    unparse(c.right) in ('self.dX', 'self.dY') and ('self.xmin' in unparse(c.left) or 'self.ymin' in unparse(c.left))]
            if n:
                users[fi.name] = n
            ctx.check(not priv, 'C08.M', fi, 'no private copy of the coordinate->cell formula (registration and queries must agree)',
                      witness={'private formula': [unparse(c) for c in priv]}, node=fi.node, key='private:' + fi.name) if priv else None
    need = {'addFeature': 2, 'request': 5, 'neighborhood': 3}
    ok = all(users.get(k, 0) >= v for k, v in need.items())
    ctx.check(ok, 'C08.M', f, 'registration (addFeature) and the point/segment/track forms of request and neighborhood all map coordinates through __getCell',
              witness={'calls per method': users, 'expected at least': need}, node=f.node, key='users')


def _floor_of(w, v, what):
    """is v == floor(what) possibly clamped by min(., size-1) ?  returns (ok, clamped)"""
    t = vr(v)
    f = 'floor(%s)' % what
    if t == f:
        return True, False
    m = re.match(r'^min\((.*)\)$', t)
    if m and f in t and ('self.csize' in t or 'self.lsize' in t):
        return True, True
    return False, False


def _bbox_cases(f, body, lo, li, c1, c2):
    """The cells examined for a segment depend on the end points only through floor/ceil/min/max and the grid size:
    evaluate the bounds (the statements before the double loop and the two range() arguments - nothing else) on the finite case
    domain {integer, half-integer} coordinates x small non-square grids.  Returns per axis the first case where a required
    cell is not examined ('missing') or a cell outside the grid is ('outside')."""
    import math
    from .. import orders
    funcs = {'floor': math.floor, 'ceil': math.ceil, 'round': round, 'trunc': math.trunc}
    out = {'columns': {'missing': None, 'outside': None, 'cases': 0}, 'rows': {'missing': None, 'outside': None, 'cases': 0}}
    pre = body[:body.index(lo)]
    for S1, S2 in ((2, 3), (3, 2)):
        xs = [k / 2 for k in range(2 * S1 + 1)]
        ys = [k / 2 for k in range(2 * S2 + 1)]
        for x1 in xs:
            for x2 in xs:
                for y1 in ys:
                    for y2 in ys:
                        env = {c1: (x1, y1), c2: (x2, y2), 'self.csize': S1, 'self.lsize': S2}
                        try:
                            orders.run_block(pre, env, funcs)
                            cols = list(orders.ev(lo.iter, env, funcs))
                            rows = set()
                            for i in cols:
                                env[lo.target.id] = i
                                pre_in = lo.body[:lo.body.index(li)]
                                orders.run_block(pre_in, env, funcs)
                                rows_i = list(orders.ev(li.iter, env, funcs))
                                rows = set(rows_i) if not rows else rows & set(rows_i)
                        except orders.Unsupported as ex:
                            raise shape_error('__cellsCrossSegment: cell range not evaluable on the case domain (%s)' % ex, f.loc(lo))
                        for nm, got, a, b, S in (('columns', set(cols), x1, x2, S1), ('rows', rows, y1, y2, S2)):
                            need = set(range(min(min(math.floor(a), math.floor(b)), S - 1), min(max(math.floor(a), math.floor(b)), S - 1) + 1))
                            o = out[nm]
                            o['cases'] += 1
                            case = {'end points': [[x1, y1], [x2, y2]], 'grid (columns, rows)': [S1, S2], 'examined': sorted(got)}
                            if o['missing'] is None and not need <= got:
                                o['missing'] = dict(case, **{'not examined': sorted(need - got)})
                            if o['outside'] is None and any(k < 0 or k >= S for k in got):
                                o['outside'] = dict(case, **{'outside the grid': sorted(k for k in got if k < 0 or k >= S)})
    return out


def rule_B(ctx):
    """C08.B cells crossed by a segment"""
    f = _m(ctx, '__cellsCrossSegment')
    c1, c2 = f.params[1:3]
    body = body_nodocstring(f)
    loops = [s for s in body if isinstance(s, ast.For)]
    if len(loops) != 1 or not any(isinstance(x, ast.For) for x in loops[0].body):
        raise shape_error('__cellsCrossSegment: double loop not found', f.loc())
    lo = loops[0]
    li = [x for x in lo.body if isinstance(x, ast.For)][0]
    w = Walker(f, loop_mode='skip')
    pre = [o for o in w.run(body[:body.index(lo)], State()) if o.kind == 'fall'][0].state
    for nm, res in _bbox_cases(f, body, lo, li, c1, c2).items():
        ctx.check(res['missing'] is None, 'C08.B', f,
                  '%s examined cover every cell from the smaller to the larger floored end-point index (upper border folded into the last one)' % nm,
                  witness={'case': res['missing'], 'cases evaluated': res['cases'],
                           'why': 'a cell holding an end point (or lying between the end points) is not examined, so the segment is not registered there'},
                  node=lo if nm == 'columns' else li, key='bbox:' + nm)
    iv, jv = lo.target.id, li.target.id
    st = pre.fork()
    st.events = []
    st.conds = []
    st.env[iv] = Rat.atom('I')
    st.env[jv] = Rat.atom('J')
    outs = list(w.run(li.body, st))
    sides = set()
    seg2 = None
    n_append = 0
    for o in outs:
        calls = [e for e in o.state.events if e.kind == 'call' and e.name == 'isSegmentIntersects']
        apps = [e for e in o.state.events if e.kind == 'call' and e.name == 'append']
        for e in calls:
            s1 = e.args[0]
            if isinstance(s1, (list, tuple)) and len(s1) == 4:
                a = (vr(s1[0]), vr(s1[1]))
                b = (vr(s1[2]), vr(s1[3]))
                sides.add(tuple(sorted([a, b])))
            seg2 = e.args[1]
        # a positive test appends the cell (I, J)
        pos = [c for c, _ in o.state.conds if c.kind == 'truth' and 'isSegmentIntersects' in repr(c)]
        if pos:
            n_append += 1
            ok = any(isinstance(e.args[0], tuple) and [vr(x) for x in e.args[0]] == ['I', 'J'] for e in apps) or \
                any('in ' in repr(c) and '(I, J)' in repr(c).replace("'", '') for c, _ in o.state.conds)
            ctx.check(ok, 'C08.B', f, 'a cell whose side is met by the segment is added to the result', witness={'path': [repr(c)[:80] for c, _ in o.state.conds][-3:]},
                      node=li, key='append-side')
    want = {tuple(sorted([('I', 'J'), ('1 + I', 'J')])), tuple(sorted([('I', 'J'), ('I', '1 + J')])),
            tuple(sorted([('I', '1 + J'), ('1 + I', '1 + J')])), tuple(sorted([('1 + I', 'J'), ('1 + I', '1 + J')]))}
    ctx.check(sides == want, 'C08.B', f, 'each cell is tested against exactly the four sides of its unit square',
              witness={'sides tested': sorted(sides), 'missing': sorted(want - sides), 'unexpected': sorted(sides - want)}, node=li, key='four-sides')
    exp2 = ['%s[0]' % c1, '%s[1]' % c1, '%s[0]' % c2, '%s[1]' % c2]
    ctx.check(isinstance(seg2, (list, tuple)) and [vr(x) for x in seg2] == exp2, 'C08.B', f, 'the sides are tested against the segment (c1, c2), x then y',
              witness={'segment': [vr(x) for x in seg2] if isinstance(seg2, (list, tuple)) else None}, node=li, key='segment')
    inside = [o for o in outs if any(e.kind == 'call' and e.name == 'append' for e in o.state.events) and
              not any(e.kind == 'call' and e.name == 'isSegmentIntersects' for e in o.state.events)]
    ctx.check(bool(inside), 'C08.B', f, 'a cell that contains the whole segment is added too', witness={}, node=li, key='inside')
    # the containment test must hold whenever both end points are strictly inside the cell (I, J): every conjunct has to follow from
    # I < x < I+1 and J < y < J+1 (a segment strictly inside meets no side, so this arm is the only one that can register it)
    box = {'%s[0]' % c1: 'I', '%s[0]' % c2: 'I', '%s[1]' % c1: 'J', '%s[1]' % c2: 'J'}
    for o in inside[:1]:
        for c, _ in o.state.conds:
            for cj in c.conjuncts():
                if cj.kind != 'cmp' or not (isinstance(cj.a, Rat) and isinstance(cj.b, Rat)) or cj.op not in ('<', '<='):
                    if 'coord' in repr(cj) or c1 in repr(cj) or c2 in repr(cj):
                        raise shape_error('__cellsCrossSegment: containment test not understood: %r' % cj, f.loc(li))
                    continue
                d = cj.b - cj.a            # cj says d > 0 (or >= 0)
                cs = [a for a in d.atoms() if a in box]
                if not cs:
                    continue
                if len(cs) != 1 or not d.ispoly():
                    raise shape_error('__cellsCrossSegment: containment test not understood: %r' % cj, f.loc(li))
                a = cs[0]
                k = d.n.coeff(a)
                if not (k.isconst() and abs(k.constval()) == 1):
                    raise shape_error('__cellsCrossSegment: containment test not understood: %r' % cj, f.loc(li))
                lowb = Rat.atom(box[a])
                # coordinate strictly between lowb and lowb+1: substitute the worst case
                worst = d.subst(a, lowb + Rat.const(1)) if k.constval() < 0 else d.subst(a, lowb)
                good = worst.isconst() and worst.constval() >= 0
                ctx.check(good, 'C08.B', f, 'the containment test accepts every segment lying strictly inside the cell (each bound is the bound of this cell, same axis)',
                          witness={'conjunct': repr(cj), 'coordinate': a, 'must follow from': '%s < %s < %s + 1' % (box[a], a, box[a]),
                                   'slack at the cell border': repr(worst),
                                   'why': 'for a cell with I != J a segment strictly inside it fails this test, meets no side of the cell and is registered nowhere'},
                          node=li, key='inside:' + a + (':up' if k.constval() < 0 else ':low'))
    if n_append < 4:
        raise shape_error('__cellsCrossSegment: fewer than four side tests lead to an append', f.loc(li))


def rule_W(ctx):
    """C08.W neighbourhood window"""
    f = _m(ctx, '__neighboringcells')
    i, j, u, inc = f.params[1:5]
    body = body_nodocstring(f)
    loops = [s for s in body if isinstance(s, ast.For)]
    if len(loops) != 1:
        raise shape_error('__neighboringcells: loops not found', f.loc())
    lo = loops[0]
    li = [x for x in lo.body if isinstance(x, ast.For)]
    if len(li) != 1:
        raise shape_error('__neighboringcells: inner loop not found', f.loc())
    li = li[0]
    w = Walker(f, loop_mode='skip')
    pre = [o for o in w.run(body[:body.index(lo)], State()) if o.kind == 'fall'][0].state
    for l, c, size, nm in ((lo, i, 'self.csize', 'columns'), (li, j, 'self.lsize', 'rows')):
        r = w.range_info(l.iter, pre)
        ce = Rat.atom(c)
        ue = Rat.atom(u)
        lo_ok = vr(r[0]) == 'max(%s)' % ', '.join(sorted(['0', repr(ce - ue)]))
        hi_ok = vr(r[1]) == 'min(%s)' % ', '.join(sorted([size, repr(ce + ue + Rat.const(1))]))
        ctx.check(lo_ok and hi_ok, 'C08.W', f,
                  'the window spans %s c-u .. c+u inclusive, clipped to [0, %s)' % (nm, size),
                  witness={'range': [vr(r[0]), vr(r[1])],
                           'why': 'clipping rows with the column count (or vice versa) drops rows of a non-square grid'}, node=l, key='window:' + nm)
    st = State({inc: Rat.const(0), lo.target.id: Rat.atom('II'), li.target.id: Rat.atom('JJ')})
    outs = [o for o in w.run(li.body, st)]
    ok = len(outs) == 1 and any(e.kind == 'call' and e.name == 'append' and isinstance(e.args[0], tuple) and [vr(x) for x in e.args[0]] == ['II', 'JJ']
                                for e in outs[0].state.events)
    ctx.check(ok, 'C08.W', f, 'in plain (non-incremental) mode every cell of the window is returned, as (column, row)', witness={}, node=li, key='all-cells')
    # neighborhood(i,j,unit) unions the registered data of every cell of the window
    g = ctx.prog.func(SI + '.neighborhood')
    t = unparse(g.node)
    ctx.recognise('NC = self.__neighboringcells(i, j, unit, False)' in t and 'TAB.update(self.request(cell[0], cell[1]))' in t, 'C08.W', g,
              'neighborhood(i, j, unit) collects the data of every window cell', witness={}, node=g.node, key='collect')


def rule_U(ctx):
    """C08.U conservative conversion of a ground distance into units"""
    f = ctx.prog.func(SI + '.groundDistanceToUnits')
    d = f.params[1]
    w = Walker(f, loop_mode='skip')
    outs = [o for o in w.run(body_nodocstring(f), State()) if o.kind == 'return']
    if len(outs) != 1:
        raise shape_error('groundDistanceToUnits not single path', f.loc())
    val = outs[0].value
    if not (isinstance(val, Rat) and val.ispoly()):
        raise shape_error('groundDistanceToUnits: return value not understood', f.loc())
    rounders = [a for a in val.atoms() if re.match(r'^(floor|ceil|int|trunc)\(', a)]
    if len(rounders) != 1 or not (val - Rat.atom(rounders[0])).isconst():
        raise shape_error('groundDistanceToUnits: not <rounding>(expression) + constant: %s' % vr(val), f.loc())
    c0 = (val - Rat.atom(rounders[0])).constval()
    kind = rounders[0].split('(', 1)[0]
    try:
        inner_node = ast.parse(rounders[0], mode='eval').body.args[0]
        inner = w.ex(inner_node, State({d: Rat.atom(d)}))
    except Exception:
        raise shape_error('groundDistanceToUnits: rounded expression not understood: %s' % rounders[0], f.loc())
    # inner = d / E + B
    B = inner.subst(d, Rat.const(0))
    slope = inner - B
    E = Rat.atom(d) / slope if not w.rel.is_zero(slope) else None
    if E is not None and E.const_ratio() is None:
        num, den = E.n, E.d
        # cancel the distance: E = d*den'/(d*num') -> evaluate at d = 1
        E = E.subst(d, Rat.const(1))
    if E is None or d in E.atoms() or B.const_ratio() is None:
        raise shape_error('groundDistanceToUnits: not affine in the distance: %s' % vr(inner), f.loc())
    # (1) rounding never loses a started cell: floor/int need B + c0 >= 1, ceil needs B + c0 >= 0
    slack = B.const_ratio() + c0
    need = 0 if kind == 'ceil' else 1
    ctx.check(slack >= need, 'C08.U', f, 'the rounding is upward: units * D >= d for every distance d (floor(d/D + 1) or ceil(d/D))',
              witness={'found': vr(val), 'rounding': kind, 'constant added (inside + outside)': str(slack), 'needed at least': need,
                       'why': 'with d = 1.5 cell sides one unit does not reach the feature'}, node=f.node, key='rounding')
    # (2) the divisor is a lower bound of both cell sides (units grow when the side shrinks): decide on the order classes of (dX, dY)
    from .. import orders
    bad = None
    for dx, dy in ((1, 2), (2, 1), (1, 1)):
        try:
            e = orders.ev(ast.parse(repr(E), mode='eval').body, {'self.dX': dx, 'self.dY': dy}, {'ite': lambda c_, a_, b_: a_ if c_ else b_})
        except (orders.Unsupported, SyntaxError) as ex:
            raise shape_error('groundDistanceToUnits: divisor not evaluable on the order classes of (dX, dY): %s' % vr(E), f.loc())
        if bad is None and not (0 < e <= min(dx, dy)):
            bad = {'dX': dx, 'dY': dy, 'divisor': str(e), 'smaller cell side': min(dx, dy)}
    ctx.check(bad is None, 'C08.U', f,
              'the distance is divided by (at most) the SMALLER cell side: the window then covers distance d along both axes',
              witness={'divisor': vr(E), 'case': bad,
                       'why': 'the number of cells needed grows when the cell side shrinks: dividing by the larger side under-covers the other axis'},
              node=f.node, key='polarity')


def rule_I(ctx):
    """C08.I indices stay inside the allocated grid"""
    f = _m(ctx, '__getCell')
    # __getCell admits every coordinate of the closed extent: the extent is the bounding box of the data (plus a margin that may be 0),
    # so the extreme vertices lie exactly on its border
    from .c03 import cond_eval
    co = f.params[1]
    wq = Walker(f, loop_mode='skip')
    X, Y = '%s.getX()' % co, '%s.getY()' % co
    width = Rat.atom('self.xmax') - Rat.atom('self.xmin')
    height = Rat.atom('self.ymax') - Rat.atom('self.ymin')
    n_none = 0
    for o in wq.run(body_nodocstring(f), State()):
        if o.kind != 'return' or isinstance(o.value, tuple):
            continue
        n_none += 1
        for label, sub in (('x == xmax', {X: Rat.atom('self.xmax')}), ('x == xmin', {X: Rat.atom('self.xmin')}),
                           ('y == ymax', {Y: Rat.atom('self.ymax')}), ('y == ymin', {Y: Rat.atom('self.ymin')})):
            def oracle(c, sub=sub):
                if c.kind != 'cmp' or not (isinstance(c.a, Rat) and isinstance(c.b, Rat)):
                    return None
                d = c.a - c.b
                for k_, v_ in sub.items():
                    d = d.subst(k_, v_)
                d = d.subst('float(%s)' % X, sub.get(X, Rat.atom(X))).subst('float(%s)' % Y, sub.get(Y, Rat.atom(Y)))
                sign = None
                if wq.rel.is_zero(d):
                    sign = 0
                elif wq.rel.is_zero(d - width) or wq.rel.is_zero(d - height):
                    sign = 1
                elif wq.rel.is_zero(d + width) or wq.rel.is_zero(d + height):
                    sign = -1
                if sign is None:
                    return None
                return {'<': sign < 0, '<=': sign <= 0, '==': sign == 0, '!=': sign != 0}[c.op]
            vals = [cond_eval(c, oracle) for c, _ in o.state.conds]
            # the path is taken at this border point if its last test holds there and no earlier test is known to fail
            if vals and vals[-1] is True and not any(v is False for v in vals[:-1]):
                ctx.violation('C08.I', f, 'every coordinate of the closed extent [xmin, xmax] x [ymin, ymax] is mapped to a cell (only points outside are refused)',
                              {'point refused': label, 'test that refuses it': repr(o.state.conds[-1][0]),
                               'why': 'with margin 0 the extreme vertices of the data lie exactly on the border: a segment ending there is registered in no cell, '
                                      'and queries along it miss the feature'}, node=o.node, key='closed-extent:' + label)
    if n_none == 0:
        raise shape_error('__getCell: out-of-extent returns not found', f.loc())
    ctx.ok('C08.I', f, '__getCell admits the whole closed extent', node=f.node)
    sites = []
    for name in ('request', 'neighborhood'):
        g = ctx.prog.func(SI + '.' + name)
        for c in ast.walk(g.node):
            if isinstance(c, ast.Call) and isinstance(c.func, ast.Attribute) and c.func.attr in ('request', 'neighborhood') and \
                    unparse(c.func.value) == 'self' and len(c.args) >= 2 and 'floor' in unparse(c.args[0]):
                sites.append((g, c))
    if len(sites) < 2:
        raise shape_error('point forms of request/neighborhood not found')
    import math
    from .. import orders
    funcs = {'floor': math.floor, 'ceil': math.ceil, 'round': round, 'trunc': math.trunc}
    for g, c in sites:
        # the two cell arguments depend on the fractional cell only through floor/min/max: evaluate them at the border classes
        names = sorted({n.id for a in c.args[:2] for n in ast.walk(a) if isinstance(n, ast.Name) and n.id not in ('min', 'max', 'math', 'self', 'int')})
        if len(names) != 1:
            raise shape_error('%s: cell arguments of the point form not understood' % g.name, g.loc(c))
        bad = None
        for S1, S2 in ((2, 3), (3, 2)):
            for fx in (0.0, 0.5, S1 - 0.5, float(S1)):
                for fy in (0.0, 0.5, S2 - 0.5, float(S2)):
                    env = {names[0]: (fx, fy), 'self.csize': S1, 'self.lsize': S2}
                    try:
                        i, j = orders.ev(c.args[0], env, funcs), orders.ev(c.args[1], env, funcs)
                    except orders.Unsupported as ex:
                        raise shape_error('%s: cell arguments of the point form not evaluable (%s)' % (g.name, ex), g.loc(c))
                    want = (min(math.floor(fx), S1 - 1), min(math.floor(fy), S2 - 1))
                    if bad is None and (i, j) != want:
                        bad = {'fractional cell': [fx, fy], 'grid (columns, rows)': [S1, S2], 'cell addressed': [i, j], 'cell containing the point': list(want)}
        ctx.check(bad is None, 'C08.I', g,
                  'a point of the closed extent addresses the cell that contains it (upper border folded into the last column/row)',
                  witness={'case': bad, 'why': 'x == xmax is admitted by __getCell and floors to index csize, which does not exist (IndexError); any other cell misses the features registered where the point is'},
                  node=c, key='clamp:' + g.name)
    h = _m(ctx, '__cellsCrossSegment')
    hb = body_nodocstring(h)
    hl = [x for x in hb if isinstance(x, ast.For)]
    if len(hl) != 1 or not any(isinstance(x, ast.For) for x in hl[0].body):
        raise shape_error('__cellsCrossSegment: double loop not found', h.loc())
    hli = [x for x in hl[0].body if isinstance(x, ast.For)][0]
    for nm, res in _bbox_cases(h, hb, hl[0], hli, h.params[1], h.params[2]).items():
        ctx.check(res['outside'] is None, 'C08.I', h, 'the %s examined for a segment inside the closed extent all exist in the grid' % nm,
                  witness={'case': res['outside'], 'cases evaluated': res['cases'],
                           'why': 'a vertex on the upper border floors to index == size; the cell list is used to address the grid (IndexError)'},
                  node=hl[0], key='clamp:cells:' + nm)


def rule_T(ctx):
    """C08.T all consecutive vertex pairs are visited"""
    for name in ('addFeature', 'request', 'neighborhood'):
        g = ctx.prog.func(SI + '.' + name)
        found = 0
        for l in [n for n in ast.walk(g.node) if isinstance(n, ast.For)]:
            t = unparse(l.iter)
            if not re.match(r'^range\(\w+\.size\(\)\)$', t):
                continue
            # rolling pair: prev = cur as last statement, pair used under `prev != None`
            last = l.body[-1]
            if isinstance(last, ast.Assign) and isinstance(last.targets[0], ast.Name) and isinstance(last.value, ast.Name):
                prev, cur = last.targets[0].id, last.value.id
                guard = [s for s in l.body if isinstance(s, ast.If) and prev in unparse(s.test) and 'None' in unparse(s.test)]
                found += 1
                ctx.check(len(guard) == 1, 'C08.T', g, '%s: every pair of consecutive vertices (i-1, i) is processed, the previous vertex being rolled forward each turn' % name,
                          witness={'loop': t}, node=l, key='pairs:' + name)
        if found == 0:
            raise shape_error('%s: vertex-pair loop not found' % name, g.loc())
    # incremental registration of network edges
    a = ctx.prog.func(NET + '.addEdge')
    w = Walker(a, loop_mode='skip')
    outs = [o for o in w.run(body_nodocstring(a), State())]
    reg = [(o, e) for o in outs for e in o.state.events if e.kind == 'call' and e.name == 'addFeature']
    if not reg:
        raise shape_error('Network.addEdge: incremental index registration not found', a.loc())
    for o, e in reg[:1]:
        app = [x for x in o.state.events if x.kind == 'call' and x.name == 'append' and 'idx_edges' in vr(x.recv)]
        ok = isinstance(e.args[1], Rat) and w.rel.is_zero(e.args[1] - (Rat.atom('self.getNumberOfEdges()') - Rat.const(1))) and \
            bool(app) and all(x.seq < e.seq for x in app) and vr(e.args[0]) == '%s.geom' % a.params[1]
        ctx.check(ok, 'C08.T', a,
                  'an edge added after the index was built is registered under its own position (number of edges - 1, counted after insertion)',
                  witness={'registered under': vr(e.args[1]), 'why': 'queries then return a position that designates another edge (or none)'},
                  node=e.node, key='incremental')
    init = ctx.prog.func(SI + '.__init__')
    t = unparse(init.node)
    ctx.recognise('self.addFeature(feature, num)' in t and 'self.addFeature(feature.geom, num)' in t and 'feature = collection[num]' in t, 'C08.T', init,
              'at construction feature number n of the collection is registered under n', witness={}, node=init.node, key='initial')


def rule_K(ctx):
    """C08.K registration bookkeeping: the (cell, feature) key tested is the key recorded"""
    f = _m(ctx, '__addSegment')
    w = Walker(f, loop_mode='once')
    apps = []
    for o in w.run(body_nodocstring(f), State()):
        for e in o.state.events:
            if e.kind == 'call' and e.name == 'append' and 'grid' in vr(e.recv) and not any(e.node is x[0].node for x in apps):
                adds = [a for a in o.state.events if a.kind == 'call' and a.name == 'add' and a.seq > e.seq]
                apps.append((e, adds))
    if not apps:
        raise shape_error('__addSegment: registration of the feature in a cell not found', f.loc())
    import re
    for e, adds in apps:
        m = re.match(r'^self\.grid\[(.+)\]\[(.+)\]$', vr(e.recv))
        if not m:
            raise shape_error('__addSegment: cell written is not self.grid[i][j]', f.loc(e.node))
        cell = (m.group(1), m.group(2))
        data = vr(e.args[0])
        tested = []
        for c, _ in e.conds:
            for cj in c.conjuncts():
                inner = cj.items[0] if cj.kind == 'not' else None
                if inner is not None and inner.kind == 'in' and False:
                    pass
                t = repr(cj)
                mm = re.match(r'^not \((.+), (.+), (.+)\) in (.+)$', t)
                if mm:
                    tested.append((mm.group(1), mm.group(2), mm.group(3), mm.group(4)))
        for a in adds:
            key = a.args[0]
            if not (isinstance(key, tuple) and len(key) == 3):
                continue
            got = tuple(vr(x) for x in key)
            ctx.check(got == cell + (data,), 'C08.K', f, 'the bookkeeping entry recorded for a registration is (column, row, feature) of the cell just written',
                      witness={'cell written': list(cell), 'entry recorded': list(got),
                               'why': 'the entry marks another cell as done: when the feature later crosses that cell it is not registered there, and queries in it miss the feature'},
                      node=a.node, key='inventory-key')
            for tk in tested:
                if tk[3] == vr(a.recv):
                    ctx.check(tk[:3] == got, 'C08.K', f, 'the bookkeeping entry tested before a registration is the one recorded after it',
                              witness={'tested': list(tk[:3]), 'recorded': list(got)}, node=a.node, key='inventory-test')


def rule_Q(ctx):
    """C08.Q registration and every query form on the finite case domain (no false negatives).

    The index code depends on coordinates only through floor() and comparisons with integers, on the grid only through its two
    sizes, and never looks inside the registered data.  SpatialIndex methods are interpreted (tlint.orders; nothing is executed) on a
    non-square 3 x 2 grid of unit cells whose cells hold one marker each, with vertices on the integrality classes {k, k + 1/2}
    including the closed upper border, tracks of three vertices, window radii 0..3."""
    import itertools
    import math
    from .. import absint, orders
    f0 = _m(ctx, '__getCell')
    CS, LS = 3, 2

    class Coord(orders.PyStub):
        isa = ('ENUCoords',)

        def __init__(self, x, y, z=0):
            self.x, self.y = x, y

        def getX(self):
            return self.x

        def getY(self):
            return self.y

        def __repr__(self):
            return '(%g, %g)' % (self.x, self.y)

    class ObsS(orders.PyStub):
        def __init__(self, c):
            self.position = c

    class TrackS(orders.PyStub):
        isa = ('Track',)

        def __init__(self, coords):
            self.obs = [ObsS(c) for c in coords]

        def size(self):
            return len(self.obs)

        def __len__(self):
            return len(self.obs)

        def getObs(self, i):
            return self.obs[i]

        def __getitem__(self, i):
            return self.obs[i]

        def __iter__(self):
            return iter(self.obs)

        def getFirstObs(self):
            return self.obs[0]
    fn = absint.funcs(ctx, 'tracklib.core.spatial_index', {'ENUCoords': lambda x, y, z=0: Coord(x, y), 'GeoCoords': lambda x, y, z=0: Coord(x, y)})

    def index(fill=True):
        grid = [[([('cell', i, j)] if fill else []) for j in range(LS)] for i in range(CS)]
        return absint.instance(ctx, SI, {'grid': grid, 'csize': CS, 'lsize': LS, 'xmin': 0.0, 'ymin': 0.0, 'xmax': float(CS), 'ymax': float(LS),
                                         'dX': 1.0, 'dY': 1.0, 'inventaire': set(), 'collection': None, 'verbose': False}, fn)

    def cell_of(c):
        return (min(math.floor(c.x), CS - 1), min(math.floor(c.y), LS - 1))

    def window(cell, u):
        return {('cell', i, j) for i in range(max(cell[0] - u, 0), min(cell[0] + u + 1, CS)) for j in range(max(cell[1] - u, 0), min(cell[1] + u + 1, LS))}

    def between(c1, c2):
        """cells certainly met by the segment: those of its end points, and for an axis-parallel segment off the grid lines the cells in between"""
        a, b = cell_of(c1), cell_of(c2)
        out = {a, b}
        if c1.y == c2.y and c1.y != math.floor(c1.y):
            out |= {(i, a[1]) for i in range(min(a[0], b[0]), max(a[0], b[0]) + 1)}
        if c1.x == c2.x and c1.x != math.floor(c1.x):
            out |= {(a[0], j) for j in range(min(a[1], b[1]), max(a[1], b[1]) + 1)}
        return out
    n = {'cases': 0}
    found = []

    def call(what, method, *args, **kw):
        n['cases'] += 1
        try:
            return index().call(method, *args, **kw) if not isinstance(what, orders.Obj) else what.call(method, *args, **kw)
        except orders.Unsupported as ex:
            raise shape_error('SpatialIndex.%s not interpretable: %s' % (method, ex), f0.loc())

    def need(key, desc, got, want, case, method):
        gs = set(got) if isinstance(got, (list, set, tuple)) else None
        if gs is None or not set(want) <= gs:
            if not any(k == key for k, _ in found):
                fi = ctx.prog.method(SI, method) if hasattr(ctx.prog, 'method') else None
                found.append((key, (desc, dict(case, **{'returned': sorted(map(repr, gs)) if gs is not None else repr(got),
                                                       'missing': sorted(map(repr, set(want) - (gs or set())))}), method)))
    xs = [0.0, 0.5, 1.0, 2.5, float(CS)]
    ys = [0.0, 0.5, 1.5, float(LS)]
    pts = [Coord(x, y) for x in xs for y in ys]
    try:
        for i, j, u in itertools.product(range(CS), range(LS), range(4)):
            got = call(None, '__neighboringcells', i, j, u, False)
            want = {(a, b) for _, a, b in window((i, j), u)}
            gs = set(tuple(c) for c in got) if isinstance(got, (list, set)) else None
            if gs is None or not want <= gs or any(not (0 <= a < CS and 0 <= b < LS) for a, b in gs):
                if not any(k == 'window' for k, _ in found):
                    found.append(('window', ('the window of radius u around cell (i, j) is every cell (i-u..i+u, j-u..j+u) of the grid, columns clipped by the column count and rows by the row count',
                                             {'cell': [i, j], 'u': u, 'grid (columns, rows)': [CS, LS], 'returned': sorted(gs) if gs is not None else repr(got),
                                              'expected': sorted(want)}, '__neighboringcells')))
            need('req-ij', 'request(i, j) returns the data registered in cell (i, j)', call(None, 'request', i, j), [('cell', i, j)], {'cell': [i, j]}, 'request')
            need('nb-ij', 'neighborhood(i, j, u) returns the data of every cell of the window', call(None, 'neighborhood', i, j, u), window((i, j), u),
                 {'cell': [i, j], 'u': u}, 'neighborhood')
        for c in pts:
            need('req-pt', 'request(point) returns the data of the cell containing the point (closed upper border folded into the last cell)',
                 call(None, 'request', c), [('cell',) + cell_of(c)], {'point': repr(c)}, 'request')
            for u in (0, 1, 2):
                need('nb-pt', 'neighborhood(point, unit=u) returns the data of every cell within u cells of the one containing the point',
                     call(None, 'neighborhood', c, None, u), window(cell_of(c), u), {'point': repr(c), 'u': u}, 'neighborhood')
                need('nb-pt', 'neighborhood(point, unit=u) returns the data of every cell within u cells of the one containing the point',
                     call(None, 'neighborhood', c, unit=u), window(cell_of(c), u), {'point': repr(c), 'u': u, 'call': 'unit passed by keyword'}, 'neighborhood')
        for c1, c2 in itertools.permutations(pts[::3] + [Coord(0.5, 0.5), Coord(2.5, 0.5), Coord(0.5, 1.5), Coord(2.5, 1.5)], 2):
            cells = between(c1, c2)
            need('req-seg', 'request([p1, p2]) returns the data of every cell the segment passes through',
                 call(None, 'request', [c1, c2]), [('cell',) + c_ for c_ in cells], {'segment': [repr(c1), repr(c2)]}, 'request')
            for u in (0, 1):
                want = set()
                for c_ in cells:
                    want |= window(c_, u)
                need('nb-seg', 'neighborhood([p1, p2], unit=u) returns the data of every cell within u cells of a crossed cell',
                     call(None, 'neighborhood', [c1, c2], None, u), want, {'segment': [repr(c1), repr(c2)], 'u': u}, 'neighborhood')
        for tri in ([Coord(0.5, 0.5), Coord(2.5, 0.5), Coord(2.5, 1.5)], [Coord(3.0, 2.0), Coord(0.5, 1.5), Coord(0.0, 0.0)], [Coord(1.0, 1.0), Coord(1.0, 1.0), Coord(2.5, 1.5)]):
            t = TrackS(tri)
            cells = between(tri[0], tri[1]) | between(tri[1], tri[2])
            case = {'track': [repr(c) for c in tri]}
            need('req-trk', 'request(track) returns the data of every cell crossed by any of its segments (all consecutive vertex pairs)',
                 call(None, 'request', t), [('cell',) + c_ for c_ in cells], case, 'request')
            for u in (0, 1, 2):
                want = set()
                for c_ in cells:
                    want |= window(c_, u)
                need('nb-trk', 'neighborhood(track, unit=u) returns the data of every cell within u cells of a cell crossed by the track',
                     call(None, 'neighborhood', t, None, u), want, dict(case, u=u), 'neighborhood')
            ix = index(fill=False)
            call(ix, 'addFeature', t, 7)
            miss = [c_ for c_ in cells if 7 not in ix.fields['grid'][c_[0]][c_[1]]]
            if miss and not any(k == 'register' for k, _ in found):
                found.append(('register', ('addFeature registers the feature number in every cell its segments pass through',
                                           dict(case, **{'cells without the feature': sorted(miss)}), 'addFeature')))
    except (IndexError, KeyError, TypeError, AttributeError, ZeroDivisionError) as ex:
        found.append(('fails', ('registration and queries do not fail inside the closed extent', {'exception': '%s: %s' % (type(ex).__name__, ex)}, 'request')))
    for key, (desc, wit, method) in found:
        ctx.violation('C08.Q', _m(ctx, method) if method.startswith('__') else ctx.prog.func(SI + '.' + method), desc, wit, key=key)
    if not found:
        for desc in ('__neighboringcells: full clipped (2u+1)^2 window on the 3 x 2 grid, u = 0..3', 'request(i, j) / request(point) / request(segment) / request(track) return the data of every cell met',
                     'neighborhood(i, j, u) / (point) / (segment) / (track) return the data of every cell within u cells of a cell met, u reaching the window whatever the call form',
                     'addFeature registers a track in every cell its segments pass through'):
            ctx.ok('C08.Q', f0, desc + ' [%d interpreted calls]' % n['cases'])
    ctx.extra['C08.Q interpreted calls'] = n['cases']


RULES = [
    ('C08.Q', rule_Q, 'quick'),
    ('C08.K', rule_K, 'quick'),
    ('C08.M', rule_M, 'quick'),
    ('C08.B', rule_B, 'quick'),
    ('C08.W', rule_W, 'quick'),
    ('C08.U', rule_U, 'quick'),
    ('C08.I', rule_I, 'quick'),
    ('C08.T', rule_T, 'quick'),
]
MIN_OBLIGATIONS = 20
