"""C03 - timestamps <-> epoch seconds (tracklib/core/obs_time.py)."""
import ast
from fractions import Fraction

from ..alg import Rat, Poly
from ..loader import shape_error, anchor_error
from ..sx import Walker, State, Cond
from .. import orders
from ..util import body_nodocstring, names_stored, unparse, const_list

MOD = 'tracklib.core.obs_time'
CLS = MOD + '.ObsTime'
DAY = 86400
MONTHS = [31, 28, 31, 30, 31, 30, 31, 31, 30, 31, 30, 31]
FIELDS = ['year', 'month', 'day', 'hour', 'min', 'sec', 'ms']

EXPLANATION = (
    "Static analysis of ObsTime (obs_time.py).  (Y) toAbsTime and readUnixTime - and whatever helpers they call - are interpreted "
    "by tlint.orders (AST interpreter, nothing executed) at the first instant, the last second and a mid-month instant with distinct "
    "field values of every month of the sampled years (quick: 14 years incl. 1972, 2000, 2038, 2100, 2101; thorough: 1970-2110), both "
    "directions, against the Gregorian day count: between those instants both functions are affine / floor-quotients, so agreement at "
    "the month boundaries decides the year and month peeling, the month table, the leap rule and the unit coefficients.  (G, Q) when "
    "the loops have the shape the path rules know, the greedy year/month loops are also checked path by path (consumed amount == "
    "length of the current unit, continuation implies the unit fits, strictly) and the quotient/remainder chain symbolically; on another "
    "shape these two rules stand down and Y decides.  (L) the leap rule on all 400 residues, no private divisibility test.  (C) the "
    "comparison operators on all 3^7 field-wise orderings plus carry cases at the ends of the field ranges (helpers interpreted).  "
    "(A) add* = readUnixTime(toAbsTime() + nb*unit).  Decides these clauses, not the float round trip of arbitrary milliseconds.")
ASSUMPTIONS = [
    "denominators are non-zero; floats behave as reals in the identities",
    "well-formed timestamps (fields in range) for the comparison clause",
    "isLeapYear depends on its argument only through residues modulo divisors of 400 (checked)",
    "C03.Y covers the sampled years only (bounded); inside a month both conversions are affine in the fields",
]
TECHNIQUE = "abstract interpretation of toAbsTime / readUnixTime at the month boundaries of the sampled years against the Gregorian day count, of isLeapYear on every year 1583..3000, of the comparison operators on all field-wise orderings and of addSec/Min/Hour/Day on carry cases (bounded case domains, checker's AST interpreter); month table (F5); advisory symbolic loop rules (F2/F6)"


def _class_const(ctx, name):
    c = ctx.prog.cls(CLS)
    for k, v in c.consts.items():
        if k == name or k == '__' + name.lstrip('_'):
            return v
    raise anchor_error('class constant %s not found' % name, CLS)


def cond_eval(c, oracle):
    """3-valued evaluation of a Cond; oracle(atomic) -> True/False/None"""
    if c.kind == 'const':
        return c.op
    if c.kind == 'and':
        vals = [cond_eval(x, oracle) for x in c.items]
        if any(v is False for v in vals):
            return False
        if all(v is True for v in vals):
            return True
        return None
    if c.kind == 'or':
        vals = [cond_eval(x, oracle) for x in c.items]
        if any(v is True for v in vals):
            return True
        if all(v is False for v in vals):
            return False
        return None
    if c.kind == 'not':
        v = cond_eval(c.items[0], oracle)
        return None if v is None else (not v)
    return oracle(c)


def leap_oracle(leap_arg_text, leap, counter=None, feb_const=None, feb=None):
    """oracle for the case (leap?, feb?) ; returns a function on atomic conds"""
    def f(c):
        if c.kind == 'truth':
            a = c.a.single_atom() if isinstance(c.a, Rat) else None
            if a is not None and 'isLeapYear(' in a:
                arg = a[a.index('isLeapYear(') + len('isLeapYear('):-1]
                if arg == leap_arg_text:
                    return leap
                return ('wrong-arg', arg)
        if c.kind == 'cmp' and c.op in ('==', '!=') and counter is not None and feb is not None:
            for x, y in ((c.a, c.b), (c.b, c.a)):
                if isinstance(x, Rat) and isinstance(y, Rat) and y.isconst() and repr(x) == counter:
                    k = y.constval()
                    if feb:
                        val = (k == feb_const)
                    else:
                        val = False if k == feb_const else None
                    if val is None:
                        return None
                    return val if c.op == '==' else (not val)
        return None
    return f


def path_feasible(conds, oracle):
    bad = None
    for c, _ in conds:
        v = cond_eval(c, oracle)
        if isinstance(v, tuple):
            bad = v
            continue
        if v is False:
            return False, bad
    return True, bad


def path_eqs(conds):
    """atom == const equalities known on a path"""
    out = {}
    for c, _ in conds:
        for cj in c.conjuncts():
            if cj.kind == 'cmp' and cj.op == '==':
                for x, y in ((cj.a, cj.b), (cj.b, cj.a)):
                    if isinstance(x, Rat) and isinstance(y, Rat) and y.isconst() and x.single_atom():
                        out[x.single_atom()] = y
    return out


def with_eqs(v, eqs):
    if isinstance(v, Rat):
        for a, c in eqs.items():
            if a in v.atoms():
                v = v.subst(a, c)
    return v


def cmp_conds(conds):
    out = []
    for c, node in conds:
        for cj in c.conjuncts():
            if cj.kind == 'cmp' and cj.op in ('<', '<=') and isinstance(cj.a, Rat) and isinstance(cj.b, Rat):
                out.append(cj)
    return out


def straight(walker, stmts, st, what):
    outs = [o for o in walker.run(stmts, st)]
    if len(outs) != 1 or outs[0].kind != 'fall':
        raise shape_error('%s is not straight-line code' % what)
    return outs[0].state


class Greedy:
    """per-iteration analysis of a loop that peels units off a budget"""

    def __init__(self, ctx, rule, func, loop, pre, phi, counter):
        self.ctx, self.rule, self.func, self.loop = ctx, rule, func, loop
        self.w = Walker(func, loop_mode='skip')
        self.assigned = sorted(names_stored(loop.body))
        if isinstance(loop, ast.For):
            self.assigned = sorted(set(self.assigned) | names_stored([loop.target]))
        self.start = pre.fork()
        for v in self.assigned:
            self.start.env[v] = Rat.atom(v + '@')
        self.phi = phi
        self.counter = counter
        self.phi_start = phi(self.w, self.start.fork())
        self.paths = []     # (kind 'cont'|'exit', outcome)
        st = self.start.fork()
        if isinstance(loop, ast.While):
            c = self.w.cond(loop.test, st)
            if not c.is_const():
                ex = st.fork()
                ex.conds.append((c.negate(), loop.test))
                self.paths.append(('exit', ex, loop))
                st.conds.append((c, loop.test))
            elif not c.op:
                raise shape_error('loop never runs', func.loc(loop))
        for o in self.w.run(loop.body, st):
            if o.kind in ('fall', 'continue'):
                self.paths.append(('cont', o.state, o.node or loop))
            elif o.kind == 'break':
                self.paths.append(('exit', o.state, o.node))
            else:
                raise shape_error('loop body leaves the function', func.loc(loop))
        if not any(k == 'cont' for k, _, _ in self.paths) or not any(k == 'exit' for k, _, _ in self.paths):
            raise shape_error('loop has no continue/exit path pair', func.loc(loop))

    def check(self, cases, unit_len, unit_name):
        """cases: list of (label, oracle) ; unit_len(label) -> Rat length of the current unit"""
        ctx, rule, func = self.ctx, self.rule, self.func
        rel = self.w.rel
        cstart = self.start.env[self.counter]
        n_ok = 0
        for kind, st, node in self.paths:
            for label, oracle in cases:
                feas, bad = path_feasible(st.conds, oracle)
                if bad is not None:
                    ctx.violation(rule, func, 'the leap test must be applied to the %s being peeled off' % unit_name,
                                  {'leap test argument': bad[1], 'unit being consumed': repr(cstart),
                                   'path': [repr(c) for c, _ in st.conds]}, node=self.loop,
                                  key='leap-arg:' + bad[1])
                    continue
                if not feas:
                    continue
                eqs = path_eqs(st.conds)
                L = with_eqs(unit_len(label), eqs)
                cstart = with_eqs(self.start.env[self.counter], eqs)
                pathtxt = [repr(c) for c, _ in st.conds]
                if kind == 'cont':
                    phi_post = self.phi(self.w, st.fork())
                    delta = with_eqs(self.phi_start, eqs) - phi_post
                    cpost = st.env[self.counter]
                    if not rel.is_zero(delta - L):
                        ctx.violation(rule, func,
                                      'one iteration must consume exactly the length of the current %s' % unit_name,
                                      {'case': label, 'consumed': repr(delta), 'length of unit': repr(L),
                                       'path': pathtxt}, node=self.loop, key='consumed:%s' % label)
                        continue
                    if not rel.is_zero(cpost - cstart - Rat.const(1)):
                        ctx.violation(rule, func, 'the %s counter advances by one per unit consumed' % unit_name,
                                      {'case': label, 'counter after': repr(cpost)}, node=self.loop,
                                      key='counter:%s' % label)
                        continue
                    fits = [c for c in cmp_conds(st.conds) if rel.is_zero((c.b - c.a) - phi_post)]
                    if not fits:
                        ctx.violation(rule, func,
                                      'continuing must imply that the whole %s fits in what remains '
                                      '(remaining - consumed >= 0)' % unit_name,
                                      {'case': label, 'consumed': repr(delta), 'remaining-after': repr(phi_post),
                                       'guards on this path': pathtxt,
                                       'why': 'no guard guarantees remaining >= consumed: the loop overshoots'},
                                      node=self.loop, key='fits:%s' % label)
                        continue
                    n_ok += 1
                    ctx.ok(rule, func, '%s loop, case %s: consumes %r, guarded by remaining >= consumed'
                           % (unit_name, label, delta), node=self.loop)
                else:
                    want = L - with_eqs(self.phi_start, eqs)
                    strict = [c for c in cmp_conds(st.conds) if c.op == '<' and rel.is_zero((c.b - c.a) - want)]
                    if not strict:
                        weak = [c for c in cmp_conds(st.conds)]
                        ctx.violation(rule, func,
                                      'leaving the %s loop must imply remaining < length of the current %s (strictly)'
                                      % (unit_name, unit_name),
                                      {'case': label, 'length of unit': repr(L), 'remaining': repr(self.phi_start),
                                       'guards on the exit path': pathtxt,
                                       'why': 'an instant exactly one unit after the start of the unit (or a unit '
                                              'of different length) stays in the previous unit'},
                                      node=self.loop, key='exit:%s' % label)
                        continue
                    n_ok += 1
                    ctx.ok(rule, func, '%s loop, case %s: exit implies remaining < %r' % (unit_name, label, L),
                           node=self.loop)
        return n_ok


def _locate_read(ctx):
    func = ctx.prog.func(CLS + '.readUnixTime')
    body = body_nodocstring(func)
    yvar = mvar = None
    mk = None
    tvar = None
    for s in body:
        if isinstance(s, ast.Assign) and len(s.targets) == 1 and isinstance(s.targets[0], ast.Attribute):
            t = s.targets[0]
            names = [n.id for n in ast.walk(s.value) if isinstance(n, ast.Name)]
            if t.attr == 'year' and len(names) == 1:
                yvar = names[0]
                tvar = unparse(t.value)
            if t.attr == 'month' and len(names) == 1:
                mvar = names[0]
                mk = s
    if yvar is None or mvar is None:
        raise shape_error('cannot find the stores to .year / .month in readUnixTime', func.loc())
    loops = [s for s in body if isinstance(s, (ast.For, ast.While))]
    # a year search written as a bounded for loop: it must at least reach the last year the property speaks about
    for l in loops:
        if isinstance(l, ast.For) and isinstance(l.target, ast.Name) and l.target.id == yvar:
            wq = Walker(func, loop_mode='skip')
            r = wq.range_info(l.iter, State())
            hi = None
            if r is not None and isinstance(r[1], Rat):
                v = r[1]
                for a_ in list(v.atoms()):
                    if a_.endswith('UNIX_BASE_YEAR'):
                        v = v.subst(a_, Rat.const(ast.literal_eval(_class_const(ctx, 'UNIX_BASE_YEAR'))))
                if v.isconst():
                    hi = int(v.constval())
            if hi is not None and hi < 2100:
                ctx.violation('C03.G', func, 'the year search covers every year up to 2099 (a bounded search must not run out silently)',
                              {'years searched': 'up to %d' % (hi - 1), 'first year decoded wrongly': hi,
                               'why': 'when the loop runs out the year variable keeps its last value while the seconds of all searched years were already consumed: '
                                      'the remainder handed to the month step is too large (month 13)'}, node=l, key='year-bound')
                raise shape_error('year loop is a bounded for loop (reported above); the greedy analysis does not apply', func.loc(l))
    yl = [l for l in loops if yvar in names_stored(l.body)]
    ml = [l for l in loops if mvar in names_stored(l.body)]
    if len(yl) != 1 or len(ml) != 1 or yl[0] is ml[0]:
        raise shape_error('cannot identify the year loop and the month loop of readUnixTime', func.loc())
    yl, ml = yl[0], ml[0]
    iy, im = body.index(yl), body.index(ml)
    if not iy < im:
        raise shape_error('year loop does not precede month loop', func.loc())
    # budget variable: the name the month loop decrements
    dec = set()
    for n in ast.walk(ml):
        if isinstance(n, ast.AugAssign) and isinstance(n.op, ast.Sub) and isinstance(n.target, ast.Name):
            dec.add(n.target.id)
        if isinstance(n, ast.Assign) and isinstance(n.targets[0], ast.Name) and isinstance(n.value, ast.BinOp) \
                and isinstance(n.value.op, ast.Sub) and isinstance(n.value.left, ast.Name) \
                and n.value.left.id == n.targets[0].id:
            dec.add(n.targets[0].id)
    if len(dec) != 1:
        raise shape_error('cannot identify the remaining-seconds variable of the month loop', func.loc(ml))
    return func, body, yl, ml, iy, im, yvar, mvar, dec.pop(), mk, tvar


def rule_G(ctx):
    """C03.G greedy decomposition loops of readUnixTime"""
    func, body, yl, ml, iy, im, yvar, mvar, bvar, mstore, tvar = _locate_read(ctx)
    w0 = Walker(func, loop_mode='skip')
    pre = straight(w0, body[:iy], State(), 'prologue of readUnixTime')
    between = body[iy + 1:im]
    param = func.params[0]

    def phi_year(w, st):
        st2 = straight(w, between, st, 'code between year and month loop')
        v = st2.env.get(bvar, Rat.atom(bvar))
        if not isinstance(v, Rat):
            raise shape_error('remaining seconds not numeric')
        return v

    # base case of the invariant
    y0 = pre.env.get(yvar)
    base = _class_const(ctx, 'UNIX_BASE_YEAR')
    ctx.check(isinstance(y0, Rat) and y0.single_atom() is not None and y0.single_atom().endswith('UNIX_BASE_YEAR')
              and isinstance(base, ast.Constant) and base.value == 1970,
              'C03.G', func, 'year counter starts at UNIX_BASE_YEAR = 1970',
              witness={'initial year': repr(y0), 'UNIX_BASE_YEAR': unparse(base)}, node=yl)
    phi0 = phi_year(Walker(func, loop_mode='skip'), pre.fork())
    ctx.check(w0.rel.is_zero(phi0 - Rat.atom(param)), 'C03.G', func,
              'before the year loop nothing has been consumed (remaining == %s)' % param,
              witness={'remaining before loop': repr(phi0)}, node=yl)

    g = Greedy(ctx, 'C03.G', func, yl, pre, phi_year, yvar)
    ystart = repr(g.start.env[yvar])
    cases = [('leap year', leap_oracle(ystart, True)), ('common year', leap_oracle(ystart, False))]
    g.check(cases, lambda lab: Rat.const(DAY * (366 if lab == 'leap year' else 365)), 'year')

    # month loop
    after_year = straight(Walker(func, loop_mode='skip'), body[:iy], State(), 'prologue')
    for v in sorted(names_stored(yl.body)):
        after_year.env[v] = Rat.atom(v + '#')
    w1 = Walker(func, loop_mode='skip')
    mid = straight(w1, between, after_year, 'code between year and month loop')
    pre_m = straight(w1, body[im + 1:im + 1][:0], mid, 'x')  # no-op, keeps state type
    yval = mid.env.get(yvar)

    def phi_month(w, st):
        v = st.env.get(bvar, Rat.atom(bvar))
        return v

    gm = Greedy(ctx, 'C03.G', func, ml, pre_m, phi_month, mvar)
    mstart = gm.start.env[mvar]
    # month number offset k: time.month = mvar + k
    wk = Walker(func, loop_mode='skip')
    stv = State({mvar: Rat.atom('M')})
    kval = wk.ex(mstore.value, stv) - Rat.atom('M')
    if not kval.isconst():
        raise shape_error('month store is not counter + constant', func.loc(mstore))
    k = kval.constval()
    feb_const = 2 - k
    table = const_list(_class_const(ctx, 'day_per_month'))
    if table is None:
        raise shape_error('month table is not a literal list')
    tname = None
    for n in ast.walk(ml):
        if isinstance(n, ast.Subscript) and 'day_per_month' in unparse(n.value):
            tname = unparse(n.value)
    if tname is None:
        raise shape_error('month loop does not read the month table', func.loc(ml))
    ytxt = repr(yval) if isinstance(yval, Rat) else str(yval)
    cases = []
    for feb in (True, False):
        for leap in (True, False):
            cases.append((('February' if feb else 'other month') + '/' + ('leap' if leap else 'common'),
                          leap_oracle(ytxt, leap, repr(mstart), feb_const, feb)))
    idx = mstart + Rat.const(k) - Rat.const(1)

    def month_len(label):
        feb, leap = label.startswith('February'), label.endswith('/leap')
        if feb:
            fi = table.index(28) if 28 in table else None
            base = Rat.const(28 * DAY)
            # under month == Feb the table read is table[feb index]
            return ('feb', base + Rat.const(DAY if leap else 0))
        return ('other', Rat.atom('%s[%s]' % (tname, repr(idx))) * Rat.const(DAY))

    # February case: the path env substituted counter == const, so the table atom carries a constant index
    def unit_len(label):
        kind, L = month_len(label)
        if kind == 'feb':
            fidx = Rat.const(feb_const + k - 1)
            atom = Rat.atom('%s[%s]' % (tname, repr(fidx)))
            leap = label.endswith('/leap')
            return atom * Rat.const(DAY) + Rat.const(DAY if leap else 0)
        return L

    # In the February cases the symbolic table read may be spelled with the counter atom (read before the
    # equality test) or with the constant index; normalise by accepting both spellings.
    gm.w.rel  # noqa
    _check_month(ctx, func, gm, cases, unit_len, tname, idx, feb_const, k, table)


def _check_month(ctx, func, gm, cases, unit_len, tname, idx, feb_const, k, table):
    rel = gm.w.rel
    sym_atom = '%s[%s]' % (tname, repr(idx))
    feb_atom = '%s[%s]' % (tname, repr(Rat.const(feb_const + k - 1)))

    def norm(r):
        # February: table[counter-expr] and table[const] denote the same entry
        if isinstance(r, Rat) and feb_atom in r.atoms():
            return r.subst(feb_atom, Rat.atom(sym_atom))
        return r

    class W:
        pass
    # wrap: replace phi so that both spellings coincide
    orig_phi = gm.phi
    gm.phi = lambda w, st: norm(orig_phi(w, st))
    gm.phi_start = norm(gm.phi_start)
    old_cmp = cmp_conds

    def ul(label):
        return norm(unit_len(label))
    # normalise guards as well
    for kind, st, node in gm.paths:
        newc = []
        for c, n in st.conds:
            newc.append((_norm_cond(c, norm), n))
        st.conds[:] = newc
    gm.check(cases, ul, 'month')
    fi = feb_const + k - 1
    ctx.check(0 <= fi < len(table) and table[int(fi)] == 28, 'C03.G', func,
              'the leap day is added to the month whose table entry is 28 (February)',
              witness={'index tested for the leap day': str(fi), 'table': table}, node=gm.loop)


def _norm_cond(c, norm):
    if c.kind == 'cmp' and isinstance(c.a, Rat) and isinstance(c.b, Rat):
        return Cond('cmp', c.op, norm(c.a), norm(c.b))
    if c.kind in ('and', 'or', 'not'):
        return Cond(c.kind, items=[_norm_cond(x, norm) for x in c.items])
    return c


def rule_Q(ctx):
    """C03.Q quotient/remainder chain after the month loop"""
    func, body, yl, ml, iy, im, yvar, mvar, bvar, mstore, tvar = _locate_read(ctx)
    w = Walker(func, loop_mode='skip')
    st = State({bvar: Rat.atom('R0')})
    tail = [s for s in body[im + 1:] if not isinstance(s, ast.Return)]
    st = straight(w, tail, st, 'tail of readUnixTime')
    stores = {}
    order = []
    for e in st.events:
        if e.kind == 'store' and e.name.startswith(tvar + '.') and e.index in ('day', 'hour', 'min', 'sec', 'ms'):
            stores[e.index] = e
            order.append(e.index)
    want = [('day', DAY, 1), ('hour', 3600, 0), ('min', 60, 0), ('sec', 1, 0)]
    if [f for f in order if f != 'ms'][:4] != [f for f, _, _ in want]:
        raise shape_error('day/hour/min/sec are not stored in this order: %s' % order, func.loc())
    # value of the budget variable just before each store
    def budget_before(seq):
        v = Rat.atom('R0')
        for e in st.events:
            if e.kind == 'assign' and e.name == bvar and e.seq < seq:
                v = e.value
        return v
    R = Rat.atom('R0')
    rel = w.rel
    for f, K, off in want:
        e = stores[f]
        Rcur = budget_before(e.seq)
        if not rel.is_zero(Rcur - R):
            ctx.violation('C03.Q', func, 'before extracting %s the remainder must be what is left after the previous field' % f,
                          {'remainder found': repr(Rcur), 'remainder expected': repr(R)}, node=e.node,
                          key='rem:' + f)
            return
        q = None
        for form in ('int', 'floor'):
            cand = '%s(%s)' % (form, w.canon(R / Rat.const(K)))
            if isinstance(e.value, Rat) and cand in e.value.atoms():
                q = cand
        if q is None or not rel.is_zero(e.value - Rat.atom(q) - Rat.const(off)):
            ctx.violation('C03.Q', func, '%s must be the integer quotient of the remainder by %d (%+d)' % (f, K, off),
                          {'stored': repr(e.value), 'remainder': repr(R), 'unit': K}, node=e.node, key='quot:' + f)
            return
        ctx.ok('C03.Q', func, '%s = int(remainder / %d)%s' % (f, K, ' + 1' if off else ''), node=e.node)
        R = R - Rat.atom(q) * Rat.const(K)
    if 'ms' in stores:
        e = stores['ms']
        Rcur = budget_before(e.seq)
        okrem = rel.is_zero(Rcur - R)
        cand = ['%s(%s)' % (form, w.canon(R * Rat.const(1000))) for form in ('int', 'floor')]
        okq = isinstance(e.value, Rat) and e.value.single_atom() in cand
        ctx.check(okrem and okq, 'C03.Q', func, 'ms = int(remaining fraction * 1000)',
                  witness={'stored': repr(e.value), 'remainder': repr(Rcur), 'expected remainder': repr(R)},
                  node=e.node, key='quot:ms')
    else:
        raise shape_error('no store to .ms', func.loc())


def rule_L(ctx):
    """C03.L the leap-year rule: ObsTime.isLeapYear interpreted (with whatever class constants and helpers it uses) on every year
    1583..3000 against the Gregorian rule; when the argument is used only through year % k with k | 400 the 400 residues decide all years"""
    from .. import absint
    func = ctx.prog.func(CLS + '.isLeapYear')
    p = func.params[0]
    pm = {}
    for n in ast.walk(func.node):
        for c in ast.iter_child_nodes(n):
            pm[c] = n
    periodic = True
    for n in ast.walk(func.node):
        if isinstance(n, ast.Name) and n.id == p and isinstance(n.ctx, ast.Load):
            par = pm.get(n)
            if not (isinstance(par, ast.BinOp) and isinstance(par.op, ast.Mod) and par.left is n and isinstance(par.right, ast.Constant)
                    and isinstance(par.right.value, int) and par.right.value > 0 and 400 % par.right.value == 0):
                periodic = False
    fn_ = absint.funcs(ctx, MOD)
    T = absint.classref(ctx, CLS, fn_)
    bad = []
    years = range(1583, 3001)
    for y in years:
        try:
            val = T.isLeapYear(y)
        except orders.Unsupported as e:
            raise shape_error('isLeapYear not interpretable: %s' % e, func.loc())
        except orders.PROGRAM_ERRORS as e:
            val = '%s: %s' % (type(e).__name__, e)
        want = (y % 4 == 0) and (y % 100 != 0 or y % 400 == 0)
        if (val is not True and val is not False and not hasattr(type(val), 'dtype')) or bool(val) != want:
            bad.append((y, val))
    ctx.check(not bad, 'C03.L', func, 'isLeapYear is the Gregorian rule on every year %d..%d%s' % (years[0], years[-1], ' (it reads the year only modulo divisors of 400: all years)' if periodic else ''),
              witness={'years answered wrongly': bad[:8]}, node=func.node, key='leap-rule')


def rule_M(ctx):
    """C03.M month table"""
    c = ctx.prog.cls(CLS)
    node = _class_const(ctx, 'day_per_month')
    table = const_list(node)
    ctx.check(table == MONTHS, 'C03.M', c.methods['toAbsTime'], 'month-length table is 31,28,31,30,31,30,31,31,30,31,30,31',
              witness={'table': table}, node=node, key='month-table')


def rule_W(ctx):
    """C03.W toAbsTime as a linear form"""
    func = ctx.prog.func(CLS + '.toAbsTime')
    body = body_nodocstring(func)
    w = Walker(func, loop_mode='skip')
    outs = list(w.run(body, State()))
    rets = [o for o in outs if o.kind == 'return']
    if len(outs) != 1 or len(rets) != 1:
        raise shape_error('toAbsTime is not single-path', func.loc())
    val = rets[0].value
    lin = (Rat.atom('self.day') - Rat.const(1)) * Rat.const(DAY) + Rat.atom('self.hour') * Rat.const(3600) + \
        Rat.atom('self.min') * Rat.const(60) + Rat.atom('self.sec') + Rat.atom('self.ms') / Rat.const(1000)
    rest = val - lin
    a = rest.single_atom() if isinstance(rest, Rat) else None
    ctx.check(a is not None and "'" in a, 'C03.W', func,
              'after the year/month sums: + (day-1)*86400 + hour*3600 + min*60 + sec + ms/1000',
              witness={'returned - expected linear part': repr(rest),
                       'expected': 'the accumulated year+month seconds only'}, node=rets[0].node, key='linear')
    loops = [s for s in body if isinstance(s, (ast.For, ast.While))]
    if len(loops) != 2 or not all(isinstance(l, ast.For) for l in loops):
        raise shape_error('toAbsTime: expected two for-loops (years, months)', func.loc())
    acc = None
    for n in ast.walk(rets[0].node):
        if isinstance(n, ast.Name):
            acc = n.id
    # accumulator: the variable both loops add to
    accs = names_stored(loops[0].body) & names_stored(loops[1].body)
    if len(accs) != 1:
        raise shape_error('cannot identify the accumulator of toAbsTime', func.loc())
    acc = accs.pop()
    table = const_list(_class_const(ctx, 'day_per_month'))
    # year loop
    yl, ml = loops
    wy = Walker(func, loop_mode='skip')
    pre = straight(wy, body[:body.index(yl)], State(), 'prologue of toAbsTime')
    ctx.check(isinstance(pre.env.get(acc), Rat) and pre.env[acc].isconst() and pre.env[acc].constval() == 0,
              'C03.W', func, 'accumulator starts at 0', witness={'initial': repr(pre.env.get(acc))}, node=yl)
    rng = wy.range_info(yl.iter, pre)
    if rng is None:
        raise shape_error('year loop is not a range loop', func.loc(yl))
    lo, hi, step = rng
    okr = isinstance(lo, Rat) and (lo.single_atom() or '').endswith('UNIX_BASE_YEAR') and \
        wy.rel.is_zero(hi - Rat.atom('self.year')) and wy.rel.is_zero(step - Rat.const(1))
    ctx.check(okr, 'C03.W', func, 'years summed are UNIX_BASE_YEAR .. year-1',
              witness={'range': [repr(lo), repr(hi), repr(step)]}, node=yl, key='year-range')
    yv = yl.target.id
    for leap in (True, False):
        n = 0
        for o in _body_paths(wy, yl, pre, acc, yv):
            feas, bad = path_feasible(o.state.conds, leap_oracle(yv, leap))
            if bad is not None:
                ctx.violation('C03.W', func, 'the leap test in the year sum is applied to the year being added',
                              {'argument': bad[1], 'year being added': yv}, node=yl, key='leap-arg-year')
                continue
            if not feas:
                continue
            n += 1
            d = o.state.env[acc] - Rat.atom(acc + '@')
            want = Rat.const(DAY * (366 if leap else 365))
            ctx.check(wy.rel.is_zero(d - want), 'C03.W', func,
                      'a %s year contributes %d days' % ('leap' if leap else 'common', 366 if leap else 365),
                      witness={'contribution': repr(d), 'expected': repr(want)}, node=yl,
                      key='year-contrib:%s' % leap)
        if n == 0:
            raise shape_error('no feasible path for leap=%s in year loop' % leap, func.loc(yl))
    # month loop
    wm = Walker(func, loop_mode='skip')
    rng = wm.range_info(ml.iter, pre)
    if rng is None:
        raise shape_error('month loop is not a range loop', func.loc(ml))
    lo, hi, step = rng
    mv = ml.target.id
    tname = None
    idxnode = None
    for n in ast.walk(ml):
        if isinstance(n, ast.Subscript) and 'day_per_month' in unparse(n.value):
            tname = unparse(n.value)
            idxnode = n.slice
    if tname is None:
        raise shape_error('month loop does not read the month table', func.loc(ml))
    # index as affine function of the loop variable: months 1..month-1 <-> indices 0..month-2
    i_lo = wm.ex(idxnode, State({mv: lo}))
    i_hi = wm.ex(idxnode, State({mv: hi}))
    ctx.check(wm.rel.is_zero(i_lo) and wm.rel.is_zero(i_hi - (Rat.atom('self.month') - Rat.const(1)))
              and wm.rel.is_zero(step - Rat.const(1)),
              'C03.W', func, 'months summed are table entries 0 .. month-2 (the months before the current one)',
              witness={'first index': repr(i_lo), 'end index (exclusive)': repr(i_hi)}, node=ml, key='month-range')
    # February constant: loop value m with index(m) == 1
    i_m = wm.ex(idxnode, State({mv: Rat.atom('m')}))
    off = i_m - Rat.atom('m')
    if not off.isconst():
        raise shape_error('table index is not loop variable + constant', func.loc(ml))
    feb_const = 1 - off.constval()
    for feb in (True, False):
        for leap in (True, False):
            n = 0
            for o in _body_paths(wm, ml, pre, acc, mv):
                orc = leap_oracle('self.year', leap, mv, feb_const, feb)
                feas, bad = path_feasible(o.state.conds, orc)
                if bad is not None:
                    ctx.violation('C03.W', func, 'the leap test in the month sum is applied to the timestamp\'s year',
                                  {'argument': bad[1]}, node=ml, key='leap-arg-month')
                    continue
                if not feas:
                    continue
                n += 1
                d = o.state.env[acc] - Rat.atom(acc + '@')
                if feb:
                    tab = Rat.const(28)
                    d2 = d
                    for a in list(d.atoms()):
                        if a.startswith(tname + '['):
                            d2 = d2.subst(a, Rat.const(28))
                    want = Rat.const(DAY * (29 if leap else 28))
                    okc = wm.rel.is_zero(d2 - want)
                else:
                    want = Rat.atom('%s[%s]' % (tname, repr(i_m).replace('m', mv))) * Rat.const(DAY)
                    okc = wm.rel.is_zero(d - Rat.atom('%s[%s]' % (tname, wm.canon(wm.ex(idxnode, State({mv: Rat.atom(mv)}))))) * Rat.const(DAY))
                ctx.check(okc, 'C03.W', func,
                          'month contribution: table entry * 86400%s' % (' + 86400 (29 February)' if feb and leap else ''),
                          witness={'case': '%s/%s' % ('February' if feb else 'other', 'leap' if leap else 'common'),
                                   'contribution': repr(d), 'expected': repr(want)}, node=ml,
                          key='month-contrib:%s:%s' % (feb, leap))
            if n == 0:
                raise shape_error('no feasible path feb=%s leap=%s in month loop' % (feb, leap), func.loc(ml))
    ctx.check(0 <= feb_const + off.constval() < 12 and table[int(feb_const + off.constval())] == 28, 'C03.W', func,
              'leap day attached to the table entry 28', witness={'feb loop value': str(feb_const)}, node=ml)


def _body_paths(w, loop, pre, acc, lv):
    st = pre.fork()
    for v in names_stored(loop.body):
        st.env[v] = Rat.atom(v + '@')
    st.env[lv] = Rat.atom(lv)
    outs = []
    for o in w.run(loop.body, st):
        if o.kind not in ('fall', 'continue'):
            raise shape_error('summation loop body leaves the loop', w._where(loop))
        outs.append(o)
    return outs


def rule_C(ctx, rid='C03.C'):
    """C03.C comparison operators on all field-wise orderings"""
    c = ctx.prog.cls(CLS)
    methods = {}
    for name in c.methods:
        if name not in ('__init__',):
            fn = c.methods[name].node
            methods[name] = ast.FunctionDef(name=fn.name, args=fn.args, body=body_nodocstring(c.methods[name]),
                                            decorator_list=[], lineno=fn.lineno)
    for need in ('__lt__', '__gt__', '__eq__', '__le__', '__ge__'):
        if need not in methods:
            raise anchor_error('ObsTime.%s not found' % need, CLS)
    import itertools
    from .. import absint
    fn_ = absint.funcs(ctx, MOD)
    absint.classref(ctx, CLS, fn_)
    proto = absint.instance(ctx, CLS, {}, fn_)

    TCLS = absint.classref(ctx, CLS, fn_)

    def Rec(fields, _methods):
        # built by the repository's own constructor (the instance dictionary has the order in which the constructor assigns the fields)
        try:
            o = TCLS(*[fields[f_] for f_ in FIELDS])
        except Exception:
            return absint.instance(ctx, CLS, fields, fn_)
        if any(o.fields.get(f_) != fields[f_] for f_ in FIELDS):
            return absint.instance(ctx, CLS, fields, fn_)
        for k_, v_ in fields.items():
            if k_ not in FIELDS:
                o.fields[k_] = v_
        return o
    total = 0
    CMP = [k for k in ('__lt__', '__gt__', '__le__', '__ge__', '__eq__', '__ne__') if k in methods]
    bad = {k: [] for k in CMP}
    for combo in itertools.product((0, 1, 2), repeat=len(FIELDS)):
        a = Rec({f: 1 for f in FIELDS}, methods)
        b = Rec({f: v for f, v in zip(FIELDS, combo)}, methods)
        a.fields['zone'] = 0
        b.fields['zone'] = 0
        ta = tuple(a.fields[f] for f in FIELDS)
        tb = tuple(b.fields[f] for f in FIELDS)
        want = {'__lt__': ta < tb, '__gt__': ta > tb, '__le__': ta <= tb, '__ge__': ta >= tb,
                '__eq__': ta == tb, '__ne__': ta != tb}
        total += 1
        for name in CMP:
            try:
                got = a.call(name, b)
            except orders.Unsupported as e:
                raise shape_error('ObsTime.%s not interpretable: %s' % (name, e), c.methods[name].loc())
            if bool(got) != want[name]:
                if len(bad[name]) < 3:
                    bad[name].append({'self': dict(zip(FIELDS, ta)), 'other': dict(zip(FIELDS, tb)),
                                      'returned': bool(got), 'order of the instants says': want[name]})
    # carry cases: real field values at the ends of their ranges - field i one step apart, every less significant field at the
    # opposite extreme (31 January 23:59:59.999 < 1 February 00:00:00.000).  Code that orders through comparisons only passes these
    # with the rank cases; code that packs the fields into one number passes exactly when every radix covers the range below it.
    RANGES = {'year': (1970, 2100), 'month': (1, 12), 'day': (1, 31), 'hour': (0, 23), 'min': (0, 59), 'sec': (0, 59), 'ms': (0, 999)}
    for i, fld in enumerate(FIELDS[:-1]):
        for base in (RANGES[fld][0], RANGES[fld][1] - 1):
            fa_ = {f: RANGES[f][0] for f in FIELDS[:i]}
            fb_ = dict(fa_)
            fa_[fld], fb_[fld] = base, base + 1
            for f in FIELDS[i + 1:]:
                fa_[f], fb_[f] = RANGES[f][1], RANGES[f][0]
            for x, y, lt in ((fa_, fb_, True), (fb_, fa_, False)):
                a = Rec(dict(x, zone=0), methods)
                b = Rec(dict(y, zone=0), methods)
                want = {'__lt__': lt, '__gt__': not lt, '__le__': lt, '__ge__': not lt, '__eq__': False, '__ne__': True}
                total += 1
                for name in CMP:
                    try:
                        got = a.call(name, b)
                    except orders.Unsupported as e:
                        raise shape_error('ObsTime.%s not interpretable: %s' % (name, e), c.methods[name].loc())
                    if bool(got) != want[name] and len(bad[name]) < 3:
                        bad[name].append({'self': x, 'other': y, 'returned': bool(got), 'order of the instants says': want[name]})
    for name in CMP:
        ctx.check(not bad[name], rid, c.methods[name],
                  'ObsTime.%s agrees with chronological (most-significant-field-first) order on all %d field-wise '
                  'orderings of two timestamps' % (name, total),
                  witness={'counter-examples (field ranks)': bad[name]}, node=c.methods[name].node, key=name)


def rule_A(ctx):
    """C03.A add* = readUnixTime(toAbsTime() + nb*unit)"""
    units = {'addSec': 1, 'addMin': 60, 'addHour': 3600, 'addDay': DAY}
    for name, u in units.items():
        f = ctx.prog.func(CLS + '.' + name)
        w = Walker(f, loop_mode='skip')
        outs = list(w.run(body_nodocstring(f), State()))
        rets = [o for o in outs if o.kind == 'return']
        if not rets:
            raise shape_error('%s has no return path' % name, f.loc())
        nb = f.params[1]
        n_main = 0
        for ro in rets:
            calls = [e for e in ro.state.events if e.kind == 'call' and e.name == 'readUnixTime']
            pathtxt = [repr(c) for c, _ in ro.state.conds]
            if calls and isinstance(ro.value, Rat) and ro.value.single_atom() == calls[-1].value:
                n_main += 1
                arg = calls[-1].args[0]
                good = isinstance(arg, Rat) and w.rel.is_zero(arg - Rat.atom('self.toAbsTime()') - Rat.atom(nb) * Rat.const(u))
                ctx.check(good, 'C03.A', f, '%s(nb) returns readUnixTime(toAbsTime() + nb*%d)' % (name, u),
                          witness={'argument of readUnixTime': repr(arg), 'returned': repr(ro.value), 'path': pathtxt}, node=f.node, key=name)
                continue
            # a path that edits a field directly: the field must provably stay inside its range
            fields = {'sec': 60, 'min': 60, 'hour': 24}
            sts = [e for e in ro.state.events if e.kind == 'store' and e.index in fields]
            if len(sts) != 1 or not isinstance(sts[0].value, Rat):
                raise shape_error('%s: a return path neither converts through seconds nor edits one field' % name, f.loc(ro.node))
            e = sts[0]
            fld, lim = e.index, fields[e.index]
            cur = Rat.atom('self.%s' % fld)
            newv = cur + e.value if e.aug == 'Add' else e.value
            cjs = [cj for c, _ in ro.state.conds for cj in c.conjuncts() if cj.kind == 'cmp' and isinstance(cj.a, Rat) and isinstance(cj.b, Rat)]
            upper = any((cj.op == '<' and w.rel.is_zero((cj.b - cj.a) - (Rat.const(lim) - newv))) or
                        (cj.op == '<=' and w.rel.is_zero((cj.b - cj.a) - (Rat.const(lim - 1) - newv))) for cj in cjs)
            lower = any((cj.op == '<=' and w.rel.is_zero((cj.b - cj.a) - newv)) or (cj.op == '<=' and w.rel.is_zero((cj.b - cj.a) - (newv - cur))) for cj in cjs)
            ctx.check(upper and lower, 'C03.A', f,
                      '%s: a shortcut that edits the %s field keeps it inside 0..%d (otherwise the carry into the next field is lost)' % (name, fld, lim - 1),
                      witness={'new value of the field': vr_(newv), 'guards of the shortcut': pathtxt,
                               'value reached': '%s = %d is allowed by the guards' % (vr_(newv), lim) if not upper else 'a negative value is allowed by the guards',
                               'why': 'e.g. 23:59:59 + 1 s must become 00:00:00 of the next day, not 23:59:60'}, node=e.node, key=name + ':shortcut')
        if n_main == 0:
            raise shape_error('%s: no path converts through toAbsTime / readUnixTime' % name, f.loc())


def vr_(v):
    if isinstance(v, Rat):
        a = v.single_atom()
        return a if a is not None else repr(v)
    return repr(v)


def rule_Y(ctx):
    """C03.Y both conversions agree with the proleptic Gregorian calendar at every month boundary (interpreted, shape-independent).

    toAbsTime and readUnixTime are piecewise affine: inside a month the seconds value is linear in (day, hour, min, sec, ms) and the
    calendar fields are floor-quotients of the remaining seconds.  ObsTime.toAbsTime / readUnixTime (and whatever helpers they call)
    are interpreted by tlint.orders at the first instant, the last second and one mid-month instant with distinct field values of
    every month of the sampled years, both directions, against the Gregorian day count (datetime.date.toordinal)."""
    import datetime
    from .. import absint
    fn = absint.funcs(ctx, MOD)
    T = absint.classref(ctx, CLS, fn)
    ft, fr = ctx.prog.func(CLS + '.toAbsTime'), ctx.prog.func(CLS + '.readUnixTime')
    base = datetime.date(1970, 1, 1).toordinal()
    if ctx.tier == 'thorough':
        plan = [(y, range(1, 13)) for y in range(1970, 2111)]
    else:
        plan = [(y, range(1, 13)) for y in (1970, 1971, 1972, 1973, 1999, 2000, 2001, 2004)] + \
               [(y, (1, 2, 3, 12)) for y in (2038, 2096, 2099, 2100, 2101, 2104, 2200, 2300, 2400, 2401)]
    bad_t, bad_r = [], []
    n = 0
    # first, conversions asked of timestamps that are no calendar dates (a month 13, 14 or 23 from a day / month mix-up, a month 0, in leap and
    # in common years): whatever they answer or raise, the conversions of well-formed dates afterwards are unaffected (the class-level
    # tables are shared by all timestamps of the process)
    for (y_, m_, d_) in ((2020, 23, 2), (2024, 14, 1), (2020, 13, 1), (2021, 15, 3), (2020, 0, 10), (2019, 0, 1), (2000, 30, 1)):
        try:
            T(y_, m_, d_, 1, 2, 3, 0).call('toAbsTime')
        except orders.Unsupported as ex:
            raise shape_error('ObsTime conversions not interpretable: %s' % ex, ft.loc())
        except orders.PROGRAM_ERRORS:
            pass
    for y, months in plan:
        for m in months:
            last = (datetime.date(y + (m == 12), m % 12 + 1, 1) - datetime.timedelta(days=1)).day
            for (d, hh, mi, ss, ms) in ((1, 0, 0, 0, 0), (last, 23, 59, 59, 0), (min(15, last), 13, 47, 29, 500)):
                want = (datetime.date(y, m, d).toordinal() - base) * 86400 + hh * 3600 + mi * 60 + ss + ms / 1000.0
                fields = {'year': y, 'month': m, 'day': d, 'hour': hh, 'min': mi, 'sec': ss, 'ms': ms}
                n += 1
                try:
                    got = T(y, m, d, hh, mi, ss, ms).call('toAbsTime')
                    back = T.readUnixTime(want)
                except orders.Unsupported as ex:
                    raise shape_error('ObsTime conversions not interpretable: %s' % ex, ft.loc())
                except (IndexError, KeyError, TypeError, ZeroDivisionError) as ex:
                    got, back = '%s: %s' % (type(ex).__name__, ex), None
                if got != want and len(bad_t) < 3:
                    bad_t.append({'timestamp': fields, 'toAbsTime': got, 'Gregorian seconds since 1970': want,
                                  'off by (s)': (got - want) if isinstance(got, (int, float)) else None})
                bf = {k: back.fields.get(k) for k in FIELDS} if isinstance(back, orders.Obj) else repr(back)
                if bf != fields and len(bad_r) < 3:
                    bad_r.append({'seconds since 1970': want, 'readUnixTime': bf, 'Gregorian calendar': fields})
    ctx.check(not bad_t, 'C03.Y', ft, 'toAbsTime equals the Gregorian seconds since 1970 at the first instant, the last second and a mid-month instant of every sampled month (%d instants)' % n,
              witness={'disagreements': bad_t}, node=ft.node, key='toAbsTime')
    ctx.check(not bad_r, 'C03.Y', fr, 'readUnixTime returns the Gregorian calendar fields of those instants (well-formed: month 1-12, existing day, hour 0-23, ...)',
              witness={'disagreements': bad_r}, node=fr.node, key='readUnixTime')
    ctx.extra['C03.Y instants'] = n


def rule_B(ctx):
    """C03.A adding seconds / minutes / hours / days moves the instant by exactly that amount and gives a well-formed timestamp:
    addSec/addMin/addHour/addDay interpreted on instants with and without milliseconds, integer and fractional amounts, with no
    carry and with carries across the minute, hour, day, month, year and a leap day, forwards and backwards"""
    import datetime
    from .. import absint
    fn = absint.funcs(ctx, MOD)
    T = absint.classref(ctx, CLS, fn)
    units = {'addSec': 1, 'addMin': 60, 'addHour': 3600, 'addDay': DAY}
    base = datetime.datetime(1970, 1, 1)
    starts = [(2021, 3, 15, 13, 21, 46, 0), (2021, 3, 15, 13, 21, 46, 250), (2020, 2, 28, 23, 59, 59, 0), (2019, 12, 31, 23, 59, 58, 500),
              (2021, 1, 31, 23, 30, 0, 0), (2024, 2, 29, 0, 0, 0, 0), (1999, 12, 31, 0, 0, 30, 999)]
    amounts = [0, 1, 5, 13, 14, 59, 60, 61, 0.5, 2.25, -1, -47, 24, 366]
    for name, u in units.items():
        f = ctx.prog.func(CLS + '.' + name)
        bad = None
        n = 0
        for st in starts:
            t0 = (datetime.datetime(*st[:6]) - base).total_seconds() + st[6] / 1000.0
            for nb in amounts:
                n += 1
                try:
                    r = T(*st).call(name, nb)
                except orders.Unsupported as ex:
                    raise shape_error('ObsTime.%s not interpretable: %s' % (name, ex), f.loc())
                except orders.PROGRAM_ERRORS as ex:
                    r = '%s: %s' % (type(ex).__name__, ex)
                want = t0 + nb * u
                ok = isinstance(r, orders.Obj)
                why = 'a timestamp is returned'
                if ok:
                    g = {k: r.fields.get(k) for k in FIELDS}
                    ok = all(isinstance(v, (int, float)) for v in g.values())
                    if ok:
                        try:
                            dt = datetime.datetime(int(g['year']), int(g['month']), int(g['day']), int(g['hour']), int(g['min']), int(g['sec']))
                            got = (dt - base).total_seconds() + g['ms'] / 1000.0
                            ok = 0 <= g['ms'] < 1000 and abs(got - want) <= 0.0011
                            why = 'the instant moves by exactly nb x %d s (to the millisecond)' % u
                        except ValueError:
                            ok = False
                            why = 'the result is a well-formed calendar timestamp'
                if not ok and bad is None:
                    bad = {'timestamp (y, m, d, h, min, s, ms)': list(st), 'call': '%s(%r)' % (name, nb), 'result': {k: r.fields.get(k) for k in FIELDS} if isinstance(r, orders.Obj) else r,
                           'expected instant (s since 1970)': want, 'violated': why}
        ctx.check(bad is None, 'C03.A', f, '%s(nb) moves the instant by nb x %d s and returns a well-formed timestamp (%d start/amount cases)' % (name, u, n), witness=bad, node=f.node, key=name)


from ..report import weighed          # noqa: E402
# (C03.M reads the month-length table where it is written today; when the table lives elsewhere the clause is decided by C03.Y / C03.A,
# which interpret every day of 1970-2099 - so C03.A runs before it)
RULES = [
    ('C03.Y', rule_Y, 'quick'),
    ('C03.A', rule_B, 'quick'),
    ('C03.G', rule_G, 'quick', 'advisory'),
    ('C03.Q', rule_Q, 'quick', 'advisory'),
    ('C03.L', rule_L, 'quick'),
    ('C03.M', weighed('C03.M', rule_M, ('C03.Y', 'C03.A')), 'quick'),
    ('C03.C', rule_C, 'quick'),
]
MIN_OBLIGATIONS = 12
