"""Exact normal form for arithmetic expressions.

Multivariate polynomials over Fraction, quotients kept as (num, den) and
compared by cross-multiplication.  Atoms are strings (canonical names of
symbols, array reads, attribute/getter paths, opaque calls).  Relations
between atoms (sqrt(e)^2 -> e, |e|^2 -> e^2, cos(a)^2 -> 1 - sin(a)^2) are
applied as rewrites by `reduce`.  This decides *identities*, nothing else
(polynomial constant propagation in the sense of Karr / Mueller-Olm & Seidl).
"""
from fractions import Fraction


class Poly:
    __slots__ = ('t',)

    def __init__(self, t=None):
        self.t = {k: v for k, v in (t or {}).items() if v != 0}

    @staticmethod
    def const(c):
        if isinstance(c, float):
            c = Fraction(repr(c)) if c == c and c not in (float('inf'), float('-inf')) else None
            if c is None:
                raise ValueError('non-finite constant')
        return Poly({(): Fraction(c)})

    @staticmethod
    def atom(a):
        return Poly({((a, 1),): Fraction(1)})

    def __add__(self, o):
        r = dict(self.t)
        for k, v in o.t.items():
            r[k] = r.get(k, 0) + v
        return Poly(r)

    def __neg__(self):
        return Poly({k: -v for k, v in self.t.items()})

    def __sub__(self, o):
        return self + (-o)

    def __mul__(self, o):
        r = {}
        for k1, v1 in self.t.items():
            for k2, v2 in o.t.items():
                if not k1:
                    k = k2
                elif not k2:
                    k = k1
                else:
                    d = dict(k1)
                    for a, e in k2:
                        d[a] = d.get(a, 0) + e
                    k = tuple(sorted((a, e) for a, e in d.items() if e != 0))
                r[k] = r.get(k, 0) + v1 * v2
        return Poly(r)

    def __pow__(self, n):
        r = Poly.const(1)
        for _ in range(n):
            r = r * self
        return r

    def iszero(self):
        return not self.t

    def isconst(self):
        return all(k == () for k in self.t)

    def constval(self):
        return self.t.get((), Fraction(0))

    def atoms(self):
        s = set()
        for k in self.t:
            for a, _ in k:
                s.add(a)
        return s

    def degree_in(self, a):
        d = 0
        for k in self.t:
            for x, e in k:
                if x == a:
                    d = max(d, e)
        return d

    def coeff(self, a, n=1):
        """coefficient polynomial of atom a ** n"""
        r = {}
        for k, v in self.t.items():
            e = dict(k).get(a, 0)
            if e == n:
                k2 = tuple((x, y) for x, y in k if x != a)
                r[k2] = r.get(k2, 0) + v
        return Poly(r)

    def subst(self, a, rat):
        """substitute atom a by Rat `rat` (polynomial result requires rat.d const; otherwise returns Rat)"""
        out = Rat(Poly())
        for k, v in self.t.items():
            term = Rat(Poly({(): v}))
            for x, e in k:
                if x == a:
                    term = term * (rat ** e)
                else:
                    term = term * Rat(Poly.atom(x) ** e)
            out = out + term
        return out

    def key(self):
        return tuple(sorted(self.t.items()))

    def __eq__(self, o):
        return isinstance(o, Poly) and self.t == o.t

    def __hash__(self):
        return hash(self.key())

    def __repr__(self):
        if not self.t:
            return '0'
        parts = []
        for k, v in sorted(self.t.items()):
            mono = '*'.join(a if e == 1 else '%s^%d' % (a, e) for a, e in k)
            if not k:
                parts.append(str(v))
            elif v == 1:
                parts.append(mono)
            elif v == -1:
                parts.append('-' + mono)
            else:
                parts.append('%s*%s' % (v, mono))
        return ' + '.join(parts)


ONE = Poly.const(1)
ZERO = Poly()


class Rat:
    """num/den of Poly.  Denominators are assumed non-zero (recorded as an assumption)."""
    __slots__ = ('n', 'd')

    def __init__(self, n, d=None):
        self.n = n
        self.d = d if d is not None else ONE
        if self.d.isconst() and self.d.t:
            c = self.d.constval()
            if c != 1:
                self.n = self.n * Poly.const(1 / c)
                self.d = ONE

    @staticmethod
    def const(c):
        return Rat(Poly.const(c))

    @staticmethod
    def atom(a):
        return Rat(Poly.atom(a))

    def __add__(self, o):
        if self.d == o.d:
            return Rat(self.n + o.n, self.d)
        return Rat(self.n * o.d + o.n * self.d, self.d * o.d)

    def __sub__(self, o):
        return self + (-o)

    def __mul__(self, o):
        return Rat(self.n * o.n, self.d * o.d)

    def __truediv__(self, o):
        return Rat(self.n * o.d, self.d * o.n)

    def __neg__(self):
        return Rat(-self.n, self.d)

    def __pow__(self, k):
        if k >= 0:
            return Rat(self.n ** k, self.d ** k)
        return Rat(self.d ** (-k), self.n ** (-k))

    def ispoly(self):
        return self.d == ONE

    def isconst(self):
        return self.d == ONE and self.n.isconst()

    def constval(self):
        return self.n.constval()

    def atoms(self):
        return self.n.atoms() | self.d.atoms()

    def const_ratio(self):
        """the Fraction k when num == k * den as polynomials (the value is the constant k wherever it is defined), else None"""
        if not self.d.t:
            return None
        if not self.n.t:
            return Fraction(0)
        k0 = next(iter(self.d.t))
        if k0 not in self.n.t:
            return None
        k = self.n.t[k0] / self.d.t[k0]
        return k if (self.n - self.d * Poly.const(k)).iszero() else None

    def single_atom(self):
        """the atom name if this value is exactly one atom, else None"""
        if self.d == ONE and len(self.n.t) == 1:
            (k, v), = self.n.t.items()
            if v == 1 and len(k) == 1 and k[0][1] == 1:
                return k[0][0]
        return None

    def subst(self, a, rat):
        return self.n.subst(a, rat) / self.d.subst(a, rat)

    def rename_atoms(self, old, new):
        """every atom whose text contains `old` is replaced by the atom with `new` in its place (aliases of a renamed object)"""
        out = self
        for a in sorted(self.atoms()):
            if old in a:
                out = out.subst(a, Rat.atom(a.replace(old, new)))
        return out

    def __repr__(self):
        if self.d == ONE:
            return repr(self.n)
        return '(%r)/(%r)' % (self.n, self.d)


class Relations:
    """rewrite relations between atoms, local to one analysis"""

    def __init__(self):
        self.square = {}      # atom -> Rat with atom^2 == that
        self.cos2 = {}        # cos-atom -> sin-atom  (cos^2 -> 1 - sin^2)

    def reduce_poly(self, p):
        changed = True
        guard = 0
        cur = Rat(p)
        while changed and guard < 12:
            guard += 1
            changed = False
            out = Rat(Poly())
            for k, v in cur.n.t.items():
                term = Rat(Poly({(): v}))
                for a, e in k:
                    if a in self.square and e >= 2:
                        term = term * (self.square[a] ** (e // 2))
                        if e % 2:
                            term = term * Rat.atom(a)
                        changed = True
                    elif a in self.cos2 and e >= 2:
                        s = Rat.atom(self.cos2[a])
                        term = term * ((Rat.const(1) - s * s) ** (e // 2))
                        if e % 2:
                            term = term * Rat.atom(a)
                        changed = True
                    else:
                        term = term * Rat(Poly.atom(a) ** e)
                out = out + term
            cur = Rat(out.n, out.d * cur.d)
        return cur

    def is_zero(self, r):
        red = self.reduce_poly(r.n)
        return red.n.iszero()

    def equal(self, a, b):
        return self.is_zero(a - b)

    def canon(self, r):
        """canonical printable form used for naming atoms of opaque calls and subscripts"""
        if r.d == ONE:
            return repr(self.reduce_poly(r.n).n) if (self.square or self.cos2) and \
                self.reduce_poly(r.n).d == ONE else repr(r.n)
        return repr(r)


def lin_decompose(poly, atom):
    """poly == a*atom + b with a,b free of atom; returns (a, b) or None if non-linear"""
    if poly.degree_in(atom) > 1:
        return None
    a = poly.coeff(atom, 1)
    b = poly.coeff(atom, 0)
    return a, b
