"""Finite case domains (F4): weak orderings of k symbols, sign patterns.

A decision taken only through comparisons / min / max of a few quantities is
evaluated (by this module's own tiny interpreter over the AST, not by running
the code) on every weak ordering of those quantities: 3 for k=2, 13 for k=3,
75 for k=4.  Each ordering stands for all real inputs that realise it.
"""
import ast
import math
import itertools

from .loader import shape_error


def weak_orderings(names):
    names = list(names)
    seen = set()
    out = []
    for ranks in itertools.product(range(len(names)), repeat=len(names)):
        vals = sorted(set(ranks))
        key = tuple(vals.index(r) for r in ranks)
        if key not in seen:
            seen.add(key)
            out.append(dict(zip(names, key)))
    return out


def describe(env):
    """ordering as text: a = b < c"""
    groups = {}
    for k, v in env.items():
        groups.setdefault(v, []).append(k)
    return ' < '.join(' = '.join(sorted(groups[r])) for r in sorted(groups))


class Unsupported(Exception):
    pass


class Raised(Exception):
    """a `raise` statement of the interpreted code: the name of the exception class, the source text of the raise, and - when the
    expression could be evaluated - the exception object itself (a builtin exception instance, or the record of a repository /
    local exception class) with the names of all the classes it is an instance of"""

    def __init__(self, name, text, value=None, bases=()):
        Exception.__init__(self, text)
        self.name = name
        self.value = value
        self.bases = tuple(bases)

    def __str__(self):
        v = self.value
        if isinstance(v, BaseException):
            return str(v)
        if v is not None and hasattr(v, 'fields') and 'args' in getattr(v, 'fields', {}):
            a = v.fields['args']
            return '' if not a else (str(a[0]) if len(a) == 1 else str(tuple(a)))
        return Exception.__str__(self)


def _as_callable(v):
    """a record whose class defines __call__, as a Python callable (handed to map, filter, sorted ...)"""
    if isinstance(v, Obj) and '__call__' in v.methods:
        return lambda *a, **k: v.call('__call__', *a, **k)
    return v


def _builtin_exception(name):
    import builtins
    c = getattr(builtins, name, None)
    return c if isinstance(c, type) and issubclass(c, BaseException) else None


def exception_names(cls):
    """names of a builtin exception class and of all its bases"""
    return tuple(c.__name__ for c in cls.__mro__ if c is not object)


def _raise_value(v, text, cause=None):
    """the Raised for an evaluated `raise` operand"""
    if isinstance(v, Raised):
        return v
    if isinstance(v, type) and issubclass(v, BaseException):
        v = v()
    if isinstance(v, BaseException):
        if isinstance(v, (Unsupported,)):
            return v
        if cause is not None:
            try:
                v.__cause__ = cause if isinstance(cause, BaseException) else None
            except Exception:           # noqa: BLE001
                pass
        return Raised(type(v).__name__, text, v, exception_names(type(v)))
    if callable(v) and not isinstance(v, Obj) and getattr(v, 'isa', None) == ('type',) or (hasattr(v, '_qual') and callable(v)):
        v = v()                          # raise SomeRepositoryError  (the class itself)
    if isinstance(v, Obj) and getattr(v, 'excbases', None):
        if cause is not None or True:
            v.fields.setdefault('__cause__', cause)
        return Raised(v.clsname, text, v, v.excbases)
    return None


_CONTAINER_METHODS = {
    'list': ('append', 'extend', 'insert', 'pop', 'remove', 'index', 'count', 'copy', 'reverse', 'sort', 'clear'),
    'set': ('add', 'update', 'discard', 'remove', 'copy', 'union', 'intersection', 'difference', 'clear'),
    'dict': ('keys', 'values', 'items', 'get', 'copy', 'pop', 'update', 'setdefault', 'clear'),
    'str': ('join', 'split', 'strip', 'lstrip', 'rstrip', 'startswith', 'endswith', 'lower', 'upper', 'replace', 'isdigit', 'find', 'count', 'format', 'zfill'),
}


class Table(dict):
    """abstract array: explicitly seeded cells hold ranks/markers, any other cell reads as a
    marker (name, index) so that a read of the wrong cell is visible in the result"""

    def __init__(self, name, cells=None):
        super().__init__(cells or {})
        self.name = name

    def read(self, key):
        if key in self:
            return self[key]
        return (self.name, key)


class PyStub:
    """marker base class for abstract objects supplied by a rule (their Python methods/attributes are the model of a repository class)"""


def _model_defines(v, name):
    """the attribute comes from the abstract object's own model (its classes or its instance), not from a builtin base (dict, list)"""
    if name in getattr(v, '__dict__', {}):
        return True
    for c in type(v).__mro__:
        if c.__module__ == 'builtins':
            continue
        if name in c.__dict__:
            return True
    return False


def _repo_method(v, name):
    rm = getattr(v, 'repo_methods', None)
    if rm and name in rm and not _model_defines(v, name):
        return rm
    return None


class _MathModule(PyStub):
    """the math module bound to another name (import math as _m)"""

    def __getattr__(self, k):
        import math as _math_
        if k.startswith('__') or not hasattr(_math_, k):
            raise AttributeError(k)
        return getattr(_math_, k)


class _ClsSuper(PyStub):
    """super() inside __init_subclass__ / a class method whose bases define nothing of that name: object's hooks"""

    def __init_subclass__(self, *a, **k):
        return None

    def __getattr__(self, name):
        if name == '__init_subclass__':
            return lambda *a, **k: None
        if name in ('repo_methods', 'repo_funcs', 'isa', 'clsname', 'owners') or name.startswith('_'):
            raise AttributeError(name)
        raise Unsupported('super().%s in a class-level method' % name)


class _SuperProxy(PyStub):
    """super(...) inside a repository class interpreted on an abstract object derived from a builtin: the builtin's own methods"""

    def __init__(self, obj):
        object.__setattr__(self, '_obj', obj)

    def __getattribute__(self, name):
        if name in ('_obj', '__class__'):
            return object.__getattribute__(self, name)
        o = object.__getattribute__(self, '_obj')
        for c in type(o).__mro__:
            if c.__module__ == 'builtins' and c is not object and name in dir(c):
                import functools
                return functools.partial(getattr(c, name), o)
        raise AttributeError(name)


class _ObjSuper(PyStub):
    """super() inside a method of a repository class: the next definition of the method along the bases of the record's class"""

    def __init__(self, obj, current):
        object.__setattr__(self, '_obj', obj)
        object.__setattr__(self, '_current', current)

    def __getattribute__(self, name):
        if name in ('_obj', '_current', '__class__', 'isa', 'repo_methods', 'repo_funcs'):
            if name in ('isa', 'repo_methods', 'repo_funcs'):
                raise AttributeError(name)
            return object.__getattribute__(self, name)
        o = object.__getattribute__(self, '_obj')
        cur = object.__getattribute__(self, '_current')
        names = [c_ for c_, _ in o.mro]
        start = names.index(cur) + 1 if cur in names else 0
        for cname, table in o.mro[start:]:
            if name in table:
                fn_ = table[name]
                return lambda *a, **k: o.call(name, *a, _fn=fn_, _owner=cname, **k)
        if name == '__init__':
            if getattr(o, 'excbases', None):
                return lambda *a, **k: o.fields.__setitem__('args', tuple(a))         # BaseException.__init__
            return lambda *a, **k: None             # object.__init__
        raise AttributeError("'super' object has no attribute %r" % name)


class Obj:
    """abstract record: a dict of field values and the repo methods (AST) of its class;
    comparisons between records are dispatched to the *repository's* dunder methods,
    interpreted by this module (never executed by Python)."""

    def __init__(self, fields, methods, funcs=None, isa=()):
        self.fields = fields
        self.methods = methods          # name -> ast.FunctionDef
        self.depth = 0
        self.funcs = funcs
        self.isa = set(isa)             # class names this record is an instance of (empty: any)
        self.clsname = None             # set by absint.instance: private attributes (self.__x) are then mangled as Python does
        self.owners = None              # method name -> defining class (the class whose name mangles the private names in that method)

    # -- Python's data model, for the places where a record meets native code (dictionary keys, tuple comparison, list.index, sorted,
    #    truth tests): the repository's own dunder methods decide, with Python's defaults when the class defines none
    def _astuple(self):
        return tuple(self.fields[k_] for k_ in self.ntfields)

    def __eq__(self, other):
        if '__eq__' in self.methods:
            return self.call('__eq__', other)
        if getattr(self, 'ntfields', None):
            o_ = other._astuple() if isinstance(other, Obj) and getattr(other, 'ntfields', None) else other
            return self._astuple() == o_ if isinstance(o_, tuple) else NotImplemented
        if getattr(self, 'dcfields', None) is not None and self.dcopts.get('eq'):
            if isinstance(other, Obj) and getattr(other, 'clsqual', 1) == getattr(self, 'clsqual', 2):
                return tuple(self.fields.get(k_) for k_ in self.dcfields) == tuple(other.fields.get(k_) for k_ in other.dcfields)
            return NotImplemented
        return NotImplemented

    def __ne__(self, other):
        if '__ne__' in self.methods:
            return self.call('__ne__', other)
        if '__eq__' in self.methods:
            r = self.call('__eq__', other)
            return r if r is NotImplemented else not r
        return NotImplemented

    def __hash__(self):
        if '__hash__' in self.methods:
            return self.call('__hash__')
        if '__eq__' in self.methods:
            raise TypeError('unhashable type: %r' % (self.clsname or 'record'))
        if getattr(self, 'ntfields', None):
            return hash(self._astuple())
        if getattr(self, 'dcfields', None) is not None and self.dcopts.get('eq'):
            if not self.dcopts.get('frozen'):
                raise TypeError('unhashable type: %r' % (self.clsname or 'record'))
            return hash(tuple(self.fields.get(k_) for k_ in self.dcfields))
        return id(self) >> 4

    def _order(self, name, other):
        if name in self.methods:
            return self.call(name, other)
        if getattr(self, 'ntfields', None):
            o_ = other._astuple() if isinstance(other, Obj) and getattr(other, 'ntfields', None) else other
            if isinstance(o_, tuple):
                return getattr(self._astuple(), name)(o_)
        if getattr(self, 'dcfields', None) is not None and self.dcopts.get('order') and isinstance(other, Obj) and getattr(other, 'clsqual', 1) == getattr(self, 'clsqual', 2):
            return getattr(tuple(self.fields.get(k_) for k_ in self.dcfields), name)(tuple(other.fields.get(k_) for k_ in other.dcfields))
        return NotImplemented

    def __lt__(self, other):
        return self._order('__lt__', other)

    def __le__(self, other):
        return self._order('__le__', other)

    def __gt__(self, other):
        return self._order('__gt__', other)

    def __ge__(self, other):
        return self._order('__ge__', other)

    def __str__(self):
        if '__str__' in self.methods:
            return self.call('__str__')
        if getattr(self, 'enum_member', None):
            return '%s.%s' % self.enum_member
        if getattr(self, 'excbases', None):
            a = self.fields.get('args', ())
            return '' if not a else (str(a[0]) if len(a) == 1 else str(tuple(a)))
        if '__repr__' in self.methods:
            return self.call('__repr__')
        return '<%s object>' % (self.clsname or 'record')

    def __repr__(self):
        if '__repr__' in self.methods:
            return self.call('__repr__')
        if getattr(self, 'excbases', None):
            a = tuple(self.fields.get('args', ()))
            return '%s(%s)' % (self.clsname, ', '.join(repr(x_) for x_ in a))
        if getattr(self, 'enum_member', None):
            return '<%s.%s: %r>' % (self.enum_member + (self.fields.get('value'),))
        if getattr(self, 'ntfields', None):
            return '%s(%s)' % (self.clsname, ', '.join('%s=%r' % (k_, self.fields[k_]) for k_ in self.ntfields))
        if getattr(self, 'dcfields', None) is not None and self.dcopts.get('repr'):
            return '%s(%s)' % (self.clsname, ', '.join('%s=%r' % (k_, self.fields.get(k_)) for k_ in self.dcfields))
        return '<%s object>' % (self.clsname or 'record')

    def __format__(self, spec):
        if '__format__' in self.methods:
            return self.call('__format__', spec)
        if spec:
            raise TypeError('unsupported format string passed to %s.__format__' % (self.clsname or 'record'))
        return str(self)

    def __bool__(self):
        if '__bool__' in self.methods:
            return bool(self.call('__bool__'))
        if '__len__' in self.methods:
            return self.call('__len__') != 0
        if getattr(self, 'ntfields', None) is not None:
            return len(self.ntfields) != 0
        return True

    def call(self, name, *args, _fn=None, _owner=None, _raw=False, **kwargs):
        fn = _fn if _fn is not None else self.methods.get(name)
        if fn is None:
            raise Unsupported('no method %s' % name)
        if not _raw and _other_decorators(fn):
            # a method wrapped by a decorator of the repository (or lru_cache ...): the decorated function is called with the receiver first
            owner_ = _owner

            def raw(receiver, *a, **k):
                return Obj.call(receiver, name, *a, _fn=fn, _owner=owner_, _raw=True, **k)
            raw.__name__ = name
            recv = self.target if isinstance(self, _Bound) else self
            return _decorate(fn, raw, self.funcs)(recv if not isinstance(self, _Bound) else self, *args, **kwargs)
        params = [a.arg for a in getattr(fn.args, 'posonlyargs', [])] + [a.arg for a in fn.args.args]        # (def m(self, x, /, y): self may be positional-only too)
        static = any(isinstance(d, ast.Name) and _deco_name(d) == 'staticmethod' for d in fn.decorator_list)
        env = _Scope(self.closure) if getattr(self, 'closure', None) is not None else {}
        if not static:
            if not params:
                raise TypeError('%s() takes no positional argument (self)' % name)
            env[params[0]] = (self.target if isinstance(self, _Bound) else self)
            if any(isinstance(d, ast.Name) and _deco_name(d) == 'classmethod' for d in fn.decorator_list):
                # a class method reached through an instance: its first parameter is the class, not the instance
                cn = (getattr(self, 'owners', None) or {}).get(name) or getattr(self, 'clsname', None)
                try:
                    env[params[0]] = self.funcs['__name__'](cn) if cn and isinstance(self.funcs, dict) and '__name__' in self.funcs else env[params[0]]
                except Unsupported:
                    pass
        if getattr(self, 'clsname', None):
            env['__cls__'] = _owner or (getattr(self, 'owners', None) or {}).get(name, self.clsname)
        _bind_params(fn, params if static else params[1:], args, kwargs, env, self.funcs, name, full=True)
        body = fn.body
        if body and isinstance(body[0], ast.Expr) and isinstance(body[0].value, ast.Constant) and isinstance(body[0].value.value, str):
            body = body[1:]
        if _is_generator(fn):
            return _start_generator(body, env, self.funcs)
        kind, val = run_block(body, env, self.funcs)
        return val if kind == 'return' else None


import types as _types
import re as _re_mod
import string as _string_mod
_SAFE_MODULES = {'re': _re_mod, 'string': _string_mod}
_PLUMBING = ('itertools', 'functools', 'operator', 'collections', 'heapq', 'bisect', 'contextlib', 'dataclasses', 'enum', 'typing')
# builtins that may be taken as values (handed to map / partial / a table) and then mean what the interpreter makes them mean
_VALUE_BUILTINS = frozenset(('getattr', 'setattr', 'hasattr', 'delattr', 'isinstance', 'len', 'iter', 'next', 'str', 'repr', 'hash', 'id', 'list', 'tuple', 'set', 'frozenset',
                             'dict', 'sorted', 'reversed', 'enumerate', 'zip', 'map', 'filter', 'min', 'max', 'sum', 'any', 'all', 'abs', 'int', 'float', 'bool', 'round',
                             'divmod', 'callable', 'type', 'range', 'print', 'ord', 'chr', 'pow'))


_BUILTIN_CALLS = frozenset(('vars', 'setattr', 'delattr', 'id', 'hash', 'repr', 'list', 'tuple', 'set', 'frozenset', 'callable', 'hasattr', 'ord', 'chr', 'bin', 'hex', 'oct', 'pow', 'print', 'iter', 'next'))


class GenList(list):
    """the values a generator function yields, produced eagerly (the interpreted generators are finite): iterable, next()-able"""

    def __iter__(self):
        return self

    def __next__(self):
        if not self:
            raise StopIteration
        return self.pop(0)


_GEN_CACHE = {}
_TYPE_CACHE = {}
_MISSING_ARG = object()


def _is_generator(fn):
    k = id(fn)
    if k not in _GEN_CACHE:
        found = False
        stack = list(fn.body)
        while stack and not found:
            n_ = stack.pop()
            if isinstance(n_, (ast.Yield, ast.YieldFrom)):
                found = True
            elif not isinstance(n_, (ast.FunctionDef, ast.Lambda, ast.ClassDef)):
                stack.extend(ast.iter_child_nodes(n_))
        _GEN_CACHE[k] = (fn, found)
    return _GEN_CACHE[k][1]


def _result(fn, env, kind, val):
    if _is_generator(fn):
        return GenList(env.get('__yielded__', []))
    return val if kind == 'return' else None


def _bind_params(fn, params, args, kwargs, env, funcs, name, full=False):
    """bind actuals to the formals `params` (self already removed) of the FunctionDef fn: defaults, *args, keyword-only, **kwargs"""
    allp = [a.arg for a in fn.args.args]
    posonly = [a.arg for a in getattr(fn.args, 'posonlyargs', [])]
    if posonly:
        # def f(a, b, /, c): the positional-only formals come first; callers pass either all positional formals (minus self) or, the
        # older ones, the regular formals only (minus self)
        full_ = posonly + allp
        if not full:
            dropped = len(allp) - len(params)
            params = full_[dropped:]
        allp = full_
        posonly = [p_ for p_ in posonly if p_ in params]
    defaults = fn.args.defaults
    # Python evaluates a default once, when the function is defined: the value (a list, a dict ...) is shared by all calls
    cache = funcs.setdefault('__default_values__', {}) if isinstance(funcs, dict) else {}
    for i, d in enumerate(defaults):
        if id(d) not in cache:
            cache[id(d)] = (d, ev(d, {}, funcs))
        env[allp[len(allp) - len(defaults) + i]] = cache[id(d)][1]
    for p, a in zip(params, args):
        env[p] = a
    extra = list(args[len(params):])
    if fn.args.vararg is not None:
        env[fn.args.vararg.arg] = tuple(extra)
    elif extra:
        raise TypeError('%s() takes %d positional arguments but %d were given' % (name, len(params), len(args)))
    kwonly = [a.arg for a in fn.args.kwonlyargs]
    for a, d in zip(fn.args.kwonlyargs, fn.args.kw_defaults):
        if d is not None:
            if id(d) not in cache:
                cache[id(d)] = (d, ev(d, {}, funcs))
            env[a.arg] = cache[id(d)][1]
    rest = {}
    for k, v in kwargs.items():
        if (k in params and k not in posonly) or k in kwonly:
            if k in params and params.index(k) < len(args):
                raise TypeError('%s() got multiple values for argument %r' % (name, k))
            env[k] = v
        elif fn.args.kwarg is not None:
            rest[k] = v
        else:
            raise TypeError('%s() got an unexpected keyword argument %r' % (name, k))
    if fn.args.kwarg is not None:
        env[fn.args.kwarg.arg] = rest
    missing = [p for p in list(params) + kwonly if p not in env]
    if missing:
        raise TypeError('%s() missing arguments %s' % (name, missing))


class _Bound:
    """adapter: lets Obj.call interpret a repository method with an abstract object as self"""

    def __init__(self, target, methods, funcs):
        self.target, self.methods, self.funcs = target, methods, funcs

    def __getattr__(self, k):
        return getattr(self.target, k)


class _BoundMethod:
    """obj.method taken as a value (passed as a callback, stored in a local)"""

    def __init__(self, obj, name):
        self.obj, self.name = obj, name
        self.__name__ = name

    def __call__(self, *a, **kw):
        return self.obj.call(self.name, *a, **kw)


def _format_value(v, conv, spec):
    if conv == ord('r'):
        v = repr(v)
    elif conv in (ord('s'), ord('a')):
        v = _to_str(v)
    if spec:
        return format(v, spec)
    return _to_str(v)


def _to_str(v):
    if isinstance(v, Obj):
        if '__str__' in v.methods:
            return v.call('__str__')
        if getattr(v, 'excbases', None):
            return str(v)
        return '<%s>' % (v.clsname or 'object')
    if isinstance(v, PyStub):
        return '<%s>' % type(v).__name__
    return str(v)


_DUNDER = {ast.Lt: '__lt__', ast.LtE: '__le__', ast.Gt: '__gt__', ast.GtE: '__ge__',
           ast.Eq: '__eq__', ast.NotEq: '__ne__'}


def _deco_name(d):
    """the plain name a decorator expression ends with, private import aliases included (@_cached_property, @_abc.abstractmethod)"""
    if isinstance(d, ast.Call):
        d = d.func
    nm = d.id if isinstance(d, ast.Name) else (d.attr if isinstance(d, ast.Attribute) else '')
    return nm.lstrip('_') if nm.lstrip('_') in _PLAIN_DECORATORS else nm


def _is_property(fn):
    return any(not isinstance(d, ast.Call) and _deco_name(d) in ('property', 'cached_property') and not (isinstance(d, ast.Attribute) and d.attr in ('setter', 'getter', 'deleter'))
               for d in getattr(fn, 'decorator_list', ()))


def _is_std_container(v):
    import collections as _cl
    return isinstance(v, (_cl.deque, _cl.defaultdict, _cl.OrderedDict, _cl.Counter, _cl.ChainMap)) or (isinstance(v, tuple) and hasattr(type(v), '_fields'))


def _demangled(o, name):
    """the private method `__x` of the record's class (or of a base) that the mangled name `_Class__x` denotes, if any"""
    if not isinstance(name, str) or not name.startswith('_') or name.endswith('__'):
        return None
    owners = getattr(o, 'owners', None) or {}
    for cls in set(owners.values()) | ({o.clsname} if getattr(o, 'clsname', None) else set()):
        prefix = '_' + cls.lstrip('_')
        if name.startswith(prefix + '__'):
            cand = name[len(prefix):]
            if cand in o.methods and owners.get(cand, o.clsname) == cls:
                return cand
    return None


def _mangled(attr, env):
    c = env.get('__cls__')
    if c and attr.startswith('__') and not attr.endswith('__'):
        return '_' + c.lstrip('_') + attr
    return attr


def _obj_compare(t, l, r):
    name = _DUNDER.get(t)
    if name is None:
        raise Unsupported('comparison on records')
    if isinstance(l, Obj) and name in l.methods:
        return l.call(name, r)
    if t is ast.NotEq and isinstance(l, Obj) and '__eq__' in l.methods:
        return not l.call('__eq__', r)
    # Python's protocol: the reflected method of the other operand, identity for == / !=, TypeError for an ordering nobody defines
    import operator as _op
    return {ast.Lt: _op.lt, ast.LtE: _op.le, ast.Gt: _op.gt, ast.GtE: _op.ge, ast.Eq: _op.eq, ast.NotEq: _op.ne}[t](l, r)


def _args(n, env, funcs):
    out = []
    for a_ in n.args:
        if isinstance(a_, ast.Starred):
            out.extend(_iter(ev(a_.value, env, funcs), a_.value))
        else:
            out.append(ev(a_, env, funcs))
    return out


def _obj_binop(t, a, b, n=None, inplace=False):
    dn = {ast.Add: 'add', ast.Sub: 'sub', ast.Mult: 'mul', ast.Mod: 'mod', ast.Div: 'truediv', ast.FloorDiv: 'floordiv', ast.Pow: 'pow',
          ast.RShift: 'rshift', ast.LShift: 'lshift'}.get(t)
    if dn and inplace and isinstance(a, Obj) and '__i%s__' % dn in a.methods:
        return a.call('__i%s__' % dn, b)
    if dn and isinstance(a, Obj) and '__%s__' % dn in a.methods:
        return a.call('__%s__' % dn, b)
    if dn and isinstance(b, Obj) and '__r%s__' % dn in b.methods:
        return b.call('__r%s__' % dn, a)
    raise Unsupported('operator on records: %s' % (ast.unparse(n) if n is not None else dn))


def _unparse(n):
    """ast.unparse with the text kept on the node (the same nodes are evaluated many times)"""
    try:
        return n._tl_text
    except AttributeError:
        t = ast.unparse(n)
        try:
            n._tl_text = t
        except Exception:
            pass
        return t


def _sort_in_place(lst, kw):
    import functools
    key = kw.get('key')
    keyed = [(key(x) if key else x, i, x) for i, x in enumerate(lst)]

    def cmp(a, b):
        ka, kb = a[0], b[0]
        if isinstance(ka, Obj) or isinstance(kb, Obj):
            if _obj_compare(ast.Lt, ka, kb):
                return -1
            if _obj_compare(ast.Lt, kb, ka):
                return 1
            return 0
        return -1 if ka < kb else (1 if kb < ka else 0)
    keyed.sort(key=functools.cmp_to_key(cmp), reverse=bool(kw.get('reverse')))
    lst[:] = [x for _, _, x in keyed]
    return None


def _kw(n, env, funcs):
    out = {}
    for k in n.keywords:
        if k.arg:
            out[k.arg] = ev(k.value, env, funcs)
            if k.arg == 'key':
                out[k.arg] = _as_callable(out[k.arg])         # (a record with __call__ handed over as key=)
        else:
            d = ev(k.value, env, funcs)
            if not isinstance(d, dict):
                raise Unsupported('** of a non-dict')
            out.update(d)
    return out


# ----------------------------------------------------------------------------------------------------------------------------------
# iteration protocol, lazy generators and the pure plumbing modules (itertools / functools / operator) on the interpreter's values
# ----------------------------------------------------------------------------------------------------------------------------------
_SYN_CACHE = {}


def _syn(src, nargs, funcs=None):
    """a Python-callable that evaluates the expression text `src` over its arguments _a0, _a1 ... with THIS interpreter (so that
    records are compared, added, indexed ... by the repository's own dunder methods)"""
    if src not in _SYN_CACHE:
        _SYN_CACHE[src] = ast.parse(src, mode='eval').body
    tree = _SYN_CACHE[src]
    names = ['_a%d' % i for i in range(nargs)]

    def call(*args):
        if len(args) != nargs:
            raise TypeError('expected %d arguments, got %d' % (nargs, len(args)))
        return ev(tree, dict(zip(names, args)), funcs)
    call.__name__ = src
    return call


def _truth(v):
    return bool(v)


def _iter(v, node=None):
    """the iterator Python's iter() gives for an interpreter value"""
    if isinstance(v, Obj):
        if getattr(v, 'ntfields', None) and '__iter__' not in v.methods:
            return iter([v.fields[k_] for k_ in v.ntfields])
        if '__iter__' in v.methods:
            r_ = v.call('__iter__')
            if isinstance(r_, Obj) and '__next__' in r_.methods:
                return _ObjNext(r_)
            if r_ is v:
                raise TypeError('iter() returned non-iterator of type %r' % (v.clsname or 'record'))
            return _iter(r_, node)
        if '__getitem__' in v.methods:
            def legacy():
                i_ = 0
                while True:
                    try:
                        item = v.call('__getitem__', i_)
                    except IndexError:
                        return
                    except Raised as ex:
                        if ex.name == 'IndexError':
                            return
                        raise
                    yield item
                    i_ += 1
                    if i_ > 100000:
                        raise Raised('NonTermination', 'iteration by index ran past 100000 items')
            return legacy()
        raise TypeError('%r object is not iterable' % (v.clsname or 'record'))
    if isinstance(v, _ObjNext):
        return v
    if isinstance(v, PyStub):
        if hasattr(v, '__iter__'):
            return iter(v)
        if hasattr(v, '__getitem__') and hasattr(v, '__len__'):
            return iter([v[i_] for i_ in range(len(v))])
        raise Unsupported('iteration over an abstract object%s' % ((' (%s)' % _unparse(node)) if node is not None else ''))
    if v is None or isinstance(v, (bool, int, float, complex)):
        raise TypeError('%r object is not iterable' % type(v).__name__)
    if isinstance(v, (list, tuple, str, range, set, frozenset, dict, bytes)) or hasattr(v, '__iter__'):
        return iter(v)
    raise Unsupported('iteration over %r' % type(v).__name__)


class _ObjNext:
    """a record whose class defines __next__ (its own iterator)"""

    def __init__(self, obj):
        self.obj = obj

    def __iter__(self):
        return self

    def __next__(self):
        try:
            return self.obj.call('__next__')
        except Raised as ex:
            if ex.name == 'StopIteration':
                raise StopIteration
            raise


def _lt(a, b):
    if isinstance(a, Obj) or isinstance(b, Obj):
        return _obj_compare(ast.Lt, a, b)
    return a < b


def _min_max(fname, items, key=None, default=_MISSING_ARG):
    best = bk = None
    first = True
    for x in items:
        k = key(x) if key is not None else x
        if first:
            best, bk, first = x, k, False
        elif (_lt(k, bk) if fname == 'min' else _lt(bk, k)):
            best, bk = x, k
    if first:
        if default is not _MISSING_ARG:
            return default
        raise ValueError('%s() iterable argument is empty' % fname)
    return best


def _add(a, b):
    if isinstance(a, Obj) or isinstance(b, Obj):
        return _obj_binop(ast.Add, a, b)
    return a + b


class _GlobalsView(PyStub):
    """globals() of the interpreted module, read-only: names resolve as free names do"""

    def __init__(self, funcs):
        self._funcs = funcs

    def __getitem__(self, k):
        if not isinstance(k, str):
            raise KeyError(k)
        g = self._funcs.get('__globals__', {})
        if k in g:
            return g[k]
        try:
            return self._funcs['__name__'](k)
        except Unsupported:
            raise Unsupported('globals()[%r]' % k)

    def get(self, k, default=None):
        try:
            return self[k]
        except (KeyError, Unsupported):
            raise Unsupported('globals().get(%r)' % k)


class _PureModule(PyStub):
    """stand-in for a standard-library module of pure plumbing: only the listed names, adapted to the interpreter's values"""
    _names = {}

    def __getattr__(self, k):
        names = type(self)._names
        if k in names:
            return names[k]
        if k.startswith('_') or k in ('repo_methods', 'repo_funcs', 'isa'):
            raise AttributeError(k)
        raise Unsupported('%s.%s is not modelled' % (type(self).__name__.strip('_').lower(), k))


def _build_pure_modules():
    import itertools as it
    import functools as ft
    import operator as op

    def its(f, n_iter=1):
        """the first n_iter positional arguments are iterables of the interpreter"""
        def call(*a, **k):
            a = list(a)
            for i_ in range(min(n_iter, len(a))):
                a[i_] = _iter(a[i_])
            return f(*a, **k)
        call.__name__ = f.__name__
        return call

    def all_its(f):
        def call(*a, **k):
            return f(*[_iter(x) for x in a], **k)
        call.__name__ = f.__name__
        return call

    def accumulate(iterable, func=None, *, initial=None):
        return it.accumulate(_iter(iterable), func if func is not None else _add, initial=initial)

    def reduce(function, iterable, *rest):
        return ft.reduce(function, _iter(iterable), *rest)

    def starmap(function, iterable):
        return (function(*list(_iter(t_))) for t_ in _iter(iterable))

    def chain_from_iterable(iterables):
        return (x for sub in _iter(iterables) for x in _iter(sub))
    chain = all_its(it.chain)
    chain.from_iterable = chain_from_iterable

    class _Itertools(_PureModule):
        _names = {'chain': chain, 'islice': its(it.islice), 'repeat': it.repeat, 'count': it.count, 'cycle': its(it.cycle),
                  'accumulate': accumulate, 'product': all_its(it.product), 'permutations': its(it.permutations), 'combinations': its(it.combinations),
                  'combinations_with_replacement': its(it.combinations_with_replacement),
                  'zip_longest': all_its(it.zip_longest), 'takewhile': lambda pred, x: it.takewhile(pred, _iter(x)),
                  'dropwhile': lambda pred, x: it.dropwhile(pred, _iter(x)), 'filterfalse': lambda pred, x: it.filterfalse(pred, _iter(x)),
                  'starmap': starmap, 'pairwise': its(it.pairwise), 'compress': all_its(it.compress), 'tee': its(it.tee)}

    class _Functools(_PureModule):
        _names = {'partial': ft.partial, 'reduce': reduce, 'cmp_to_key': ft.cmp_to_key}

    def itemgetter(*items):
        if not items:
            raise TypeError('itemgetter expected 1 argument, got 0')
        get = _syn('_a0[_a1]', 2)
        if len(items) == 1:
            return lambda obj: get(obj, items[0])
        return lambda obj: tuple(get(obj, i_) for i_ in items)

    def attrgetter(*names):
        if not names or not all(isinstance(nm, str) for nm in names):
            raise TypeError('attribute name must be a string')
        get = _syn('getattr(_a0, _a1)', 2)

        def one(obj, dotted):
            for part in dotted.split('.'):
                obj = get(obj, part)
            return obj
        if len(names) == 1:
            return lambda obj: one(obj, names[0])
        return lambda obj: tuple(one(obj, nm) for nm in names)

    def methodcaller(name, *a, **k):
        get = _syn('getattr(_a0, _a1)', 2)
        return lambda obj: get(obj, name)(*a, **k)
    binops = {'lt': '<', 'le': '<=', 'gt': '>', 'ge': '>=', 'eq': '==', 'ne': '!=', 'add': '+', 'sub': '-', 'mul': '*', 'truediv': '/', 'floordiv': '//',
              'mod': '%', 'pow': '**', 'is_': ' is ', 'is_not': ' is not ', 'and_': '&', 'or_': '|', 'xor': '^', 'lshift': '<<', 'rshift': '>>', 'concat': '+'}
    names = {nm: _syn('_a0 %s _a1' % sym, 2) for nm, sym in binops.items()}
    names.update({'neg': _syn('-_a0', 1), 'pos': _syn('+_a0', 1), 'not_': _syn('not _a0', 1), 'truth': _syn('bool(_a0)', 1), 'abs': _syn('abs(_a0)', 1),
                  'getitem': _syn('_a0[_a1]', 2), 'contains': _syn('_a1 in _a0', 2), 'index': _syn('_a0.__index__()', 1),
                  'itemgetter': itemgetter, 'attrgetter': attrgetter, 'methodcaller': methodcaller})

    def setitem(a, b, c):
        _bind(_SYN_STORE, c, {'_a0': a, '_a1': b})
    names['setitem'] = setitem

    def inplace(sym):
        stmt = ast.parse('_a0 %s= _a1' % sym).body

        def call(a, b):
            env = {'_a0': a, '_a1': b}
            run_block(stmt, env, None)
            return env['_a0']
        return call
    for nm, sym in (('iadd', '+'), ('isub', '-'), ('imul', '*'), ('itruediv', '/'), ('ifloordiv', '//'), ('imod', '%'), ('ipow', '**'), ('iconcat', '+'),
                    ('ilshift', '<<'), ('irshift', '>>')):
        names[nm] = inplace(sym)
        names['__%s__' % nm] = names[nm]
    for nm in list(names):
        if nm.rstrip('_') == nm and nm in ('lt', 'le', 'gt', 'ge', 'eq', 'ne', 'add', 'sub', 'mul', 'truediv', 'floordiv', 'mod', 'pow', 'neg', 'pos', 'getitem', 'setitem', 'contains', 'abs', 'index'):
            names['__%s__' % nm] = names[nm]

    class _Operator(_PureModule):
        _names = names

    import collections as cl

    class _Collections(_PureModule):
        _names = {'namedtuple': cl.namedtuple, 'deque': lambda *a, **k: cl.deque(*[_iter(x) for x in a[:1]], *a[1:], **k), 'defaultdict': cl.defaultdict,
                  'OrderedDict': cl.OrderedDict, 'Counter': lambda *a, **k: cl.Counter(*[(x if isinstance(x, dict) else _iter(x)) for x in a], **k), 'ChainMap': cl.ChainMap}

    # heapq / bisect re-implemented over the interpreter's ordering (records compare through the repository's __lt__)
    def _siftdown(heap, startpos, pos):
        newitem = heap[pos]
        while pos > startpos:
            parentpos = (pos - 1) >> 1
            parent = heap[parentpos]
            if _lt(newitem, parent):
                heap[pos] = parent
                pos = parentpos
                continue
            break
        heap[pos] = newitem

    def _siftup(heap, pos):
        endpos = len(heap)
        startpos = pos
        newitem = heap[pos]
        childpos = 2 * pos + 1
        while childpos < endpos:
            rightpos = childpos + 1
            if rightpos < endpos and not _lt(heap[childpos], heap[rightpos]):
                childpos = rightpos
            heap[pos] = heap[childpos]
            pos = childpos
            childpos = 2 * pos + 1
        heap[pos] = newitem
        _siftdown(heap, startpos, pos)

    def heappush(heap, item):
        heap.append(item)
        _siftdown(heap, 0, len(heap) - 1)

    def heappop(heap):
        lastelt = heap.pop()
        if heap:
            returnitem = heap[0]
            heap[0] = lastelt
            _siftup(heap, 0)
            return returnitem
        return lastelt

    def heapify(x):
        for i in reversed(range(len(x) // 2)):
            _siftup(x, i)

    def heapreplace(heap, item):
        returnitem = heap[0]
        heap[0] = item
        _siftup(heap, 0)
        return returnitem

    def heappushpop(heap, item):
        if heap and _lt(heap[0], item):
            item, heap[0] = heap[0], item
            _siftup(heap, 0)
        return item

    def _sorted(iterable, key=None, reverse=False):
        out = list(_iter(iterable))
        _sort_in_place(out, {'key': key, 'reverse': reverse})
        return out

    class _Heapq(_PureModule):
        _names = {'heappush': heappush, 'heappop': heappop, 'heapify': heapify, 'heapreplace': heapreplace, 'heappushpop': heappushpop,
                  'nsmallest': lambda n_, it_, key=None: _sorted(it_, key=key)[:n_], 'nlargest': lambda n_, it_, key=None: _sorted(it_, key=key, reverse=True)[:n_]}

    def bisect_right(a, x, lo=0, hi=None, *, key=None):
        if lo < 0:
            raise ValueError('lo must be non-negative')
        if hi is None:
            hi = len(a)
        while lo < hi:
            mid = (lo + hi) // 2
            if _lt(x, a[mid] if key is None else key(a[mid])):
                hi = mid
            else:
                lo = mid + 1
        return lo

    def bisect_left(a, x, lo=0, hi=None, *, key=None):
        if lo < 0:
            raise ValueError('lo must be non-negative')
        if hi is None:
            hi = len(a)
        while lo < hi:
            mid = (lo + hi) // 2
            if _lt(a[mid] if key is None else key(a[mid]), x):
                lo = mid + 1
            else:
                hi = mid
        return lo

    def insort_right(a, x, lo=0, hi=None, *, key=None):
        a.insert(bisect_right(a, x if key is None else key(x), lo, hi, key=key), x)

    def insort_left(a, x, lo=0, hi=None, *, key=None):
        a.insert(bisect_left(a, x if key is None else key(x), lo, hi, key=key), x)

    class _Bisect(_PureModule):
        _names = {'bisect': bisect_right, 'bisect_right': bisect_right, 'bisect_left': bisect_left, 'insort': insort_right, 'insort_right': insort_right, 'insort_left': insort_left}

    class _GenCM:
        """what contextlib.contextmanager makes of a generator function"""

        def __init__(self, gen):
            self.gen = gen

        def __enter__(self):
            try:
                return next(self.gen)
            except StopIteration:
                raise RuntimeError("generator didn't yield")

        def __exit__(self, typ, value, tb):
            if typ is None:
                try:
                    next(self.gen)
                except StopIteration:
                    return False
                raise RuntimeError("generator didn't stop")
            try:
                self.gen.throw(value)
            except StopIteration:
                return True
            except BaseException as ex:
                if ex is value:
                    return False
                raise
            raise RuntimeError("generator didn't stop after throw()")

    def contextmanager(fn):
        def helper(*a, **k):
            return _GenCM(fn(*a, **k))
        helper.__name__ = getattr(fn, '__name__', 'helper')
        return helper

    class _NullContext:
        def __init__(self, enter_result=None):
            self.enter_result = enter_result

        def __enter__(self):
            return self.enter_result

        def __exit__(self, *exc):
            return False

    class _Contextlib(_PureModule):
        _names = {'contextmanager': contextmanager, 'nullcontext': _NullContext}

    def wraps(wrapped, *a, **k):
        def deco(fn):
            try:
                fn.__name__ = getattr(wrapped, '__name__', getattr(fn, '__name__', 'wrapper'))
            except Exception:
                pass
            return fn
        return deco

    def lru_cache(maxsize=128, typed=False):
        def deco(fn):
            memo = {}

            def cached(*a, **k):
                key = (a, tuple(sorted(k.items())))
                hash(key)
                if key not in memo:
                    memo[key] = fn(*a, **k)
                return memo[key]
            cached.__name__ = getattr(fn, '__name__', 'cached')
            cached.cache_clear = memo.clear
            return cached
        if callable(maxsize) and not isinstance(maxsize, (int, type(None))):
            fn_, maxsize = maxsize, 128
            return deco(fn_)
        return deco
    def singledispatch(fn):
        registry = []

        def class_names(v):
            if isinstance(v, Obj):
                return [c_ for c_, _ in (getattr(v, 'mro', None) or [(v.clsname, None)])] + ['object']
            return [t_.__name__ for t_ in type(v).__mro__]

        def key_name(cls):
            cls = getattr(cls, '__wrapped_type__', cls)
            if isinstance(cls, type):
                return cls.__name__
            if hasattr(cls, '_qual'):
                return str(cls._qual).split('.')[-1]
            raise Unsupported('singledispatch on %r' % (cls,))

        def dispatcher(*a, **k):
            if not a:
                raise TypeError('%s requires at least 1 positional argument' % getattr(fn, '__name__', 'function'))
            names_ = (list(getattr(a[0], 'isa', ())) + ['object']) if isinstance(a[0], PyStub) and not isinstance(a[0], Obj) else class_names(a[0])
            for nm_ in names_:
                for key_, impl in reversed(registry):
                    if key_ == nm_:
                        return impl(*a, **k)
            return fn(*a, **k)

        def register(cls, func=None):
            if func is not None:
                registry.append((key_name(cls), func))
                return func
            if callable(cls) and not isinstance(getattr(cls, '__wrapped_type__', cls), type) and not hasattr(cls, '_qual'):
                raise Unsupported('singledispatch.register by annotation')
            nm_ = key_name(cls)

            def deco(f_):
                registry.append((nm_, f_))
                return f_
            return deco
        dispatcher.register = register
        dispatcher.__name__ = getattr(fn, '__name__', 'dispatcher')
        return dispatcher
    _Functools._names.update({'wraps': wraps, 'lru_cache': lru_cache, 'cache': lru_cache(None), 'singledispatch': singledispatch})
    class _FieldInfo(PyStub):
        def __init__(self, name):
            self.name = name

        def __repr__(self):
            return 'Field(name=%r)' % self.name

    def dc_fields(obj):
        names_ = getattr(obj, 'dcfields', None)
        if names_ is None and hasattr(obj, '_dataclass') and callable(getattr(obj, '_dataclass')):
            dc_ = obj._dataclass()
            names_ = tuple(f_[0] for f_ in dc_[0]) if dc_ else None
        if names_ is None:
            raise TypeError('must be called with a dataclass type or instance')
        return tuple(_FieldInfo(nm_) for nm_ in names_)

    def dc_replace(obj, **changes):
        if getattr(obj, 'dcfields', None) is None:
            raise TypeError('replace() should be called on dataclass instances')
        from . import absint as _absint
        new_ = _absint.shallow_copy(obj)
        for k_, v_ in changes.items():
            if k_ not in obj.dcfields:
                raise TypeError('__init__() got an unexpected keyword argument %r' % k_)
            new_.fields[k_] = v_
        return new_

    def dc_astuple(obj):
        return tuple(obj.fields.get(k_) for k_ in obj.dcfields)

    def dc_asdict(obj):
        return {k_: obj.fields.get(k_) for k_ in obj.dcfields}

    def _dc_decorator(*a, **k):
        if a and not k:
            return a[0]
        return lambda c_: c_
    _dc_decorator.stands_for = 'dataclasses.dataclass'

    def _dc_field(**k):
        return k.get('default', None)
    _dc_field.stands_for = 'dataclasses.field'

    class _Dataclasses(_PureModule):
        _names = {'dataclass': _dc_decorator, 'field': _dc_field,
                  'fields': dc_fields, 'replace': dc_replace, 'astuple': dc_astuple, 'asdict': dc_asdict}

    class _Marker(PyStub):
        def __init__(self, name):
            self.__name__ = name

    class _Enum(_PureModule):
        _names = {'Enum': _Marker('Enum'), 'IntEnum': _Marker('IntEnum'), 'auto': lambda: None, 'unique': lambda c_: c_}

    class _Typing(_PureModule):
        _names = {'NamedTuple': _Marker('NamedTuple')}

        def __getattr__(self, k):
            if k in type(self)._names:
                return type(self)._names[k]
            if k.startswith('_') or k in ('repo_methods', 'repo_funcs', 'isa'):
                raise AttributeError(k)
            return _Marker(k)          # (typing names only ever appear in annotations)
    return {'itertools': _Itertools(), 'functools': _Functools(), 'operator': _Operator(), 'collections': _Collections(), 'heapq': _Heapq(), 'bisect': _Bisect(),
            'contextlib': _Contextlib(), 'dataclasses': _Dataclasses(), 'enum': _Enum(), 'typing': _Typing()}


_SYN_STORE = ast.parse('_a0[_a1]', mode='eval').body
_SYN_STORE.ctx = ast.Store()
_PURE_MODULES = {}


def pure_module(name):
    """the interpreter's stand-in for the standard-library module `name` (None when the module is not one of the pure plumbing ones)"""
    if not _PURE_MODULES:
        _PURE_MODULES.update(_build_pure_modules())
    return _PURE_MODULES.get(name)


def builtin_value(name, funcs=None):
    """a builtin function taken as a VALUE (handed to map, partial, a dispatch table): a callable that applies the interpreter's own
    meaning of that builtin"""
    def call(*args, **kwargs):
        env = {'_a%d' % i_: a_ for i_, a_ in enumerate(args)}
        env.update({'_k_%s' % k_: v_ for k_, v_ in kwargs.items()})
        node = ast.Call(func=ast.Name(id=name, ctx=ast.Load()), args=[ast.Name(id='_a%d' % i_, ctx=ast.Load()) for i_ in range(len(args))],
                        keywords=[ast.keyword(arg=k_, value=ast.Name(id='_k_%s' % k_, ctx=ast.Load())) for k_ in kwargs])
        return ev(node, env, funcs)
    call.__name__ = name
    if name in _MATCH_BUILTINS or name in ('object', 'type'):
        call.__wrapped_type__ = _MATCH_BUILTINS.get(name, object if name == 'object' else type)
    return call


def _lazy_genexp(n, env, funcs):
    """a generator expression: its first iterable is evaluated at once (in the enclosing scope), everything else when items are asked for"""
    first = _iter(ev(n.generators[0].iter, env, funcs), n.generators[0].iter)
    scope = _flat(env)
    scope['__comp_outer__'] = env

    def gen(k):
        if k == len(n.generators):
            yield ev(n.elt, scope, funcs)
            return
        g = n.generators[k]
        src = first if k == 0 else _iter(ev(g.iter, scope, funcs), g.iter)
        for item in src:
            _bind(g.target, item, scope, funcs)
            if all(ev(c_, scope, funcs) for c_ in g.ifs):
                yield from gen(k + 1)
    return gen(0)


def _has_yield(s):
    try:
        return s._tl_yield
    except AttributeError:
        found = False
        stack = [s]
        while stack and not found:
            n_ = stack.pop()
            if isinstance(n_, (ast.Yield, ast.YieldFrom)):
                found = True
            elif n_ is s or not isinstance(n_, (ast.FunctionDef, ast.Lambda, ast.ClassDef, ast.AsyncFunctionDef)):
                stack.extend(ast.iter_child_nodes(n_))
        s._tl_yield = found
        return found


def _start_generator(body, env, funcs, after=None):
    """the generator object a call of a generator function returns: nothing of the body runs before the first item is asked for"""
    def g():
        try:
            kind, val = yield from _gen_block(body, env, funcs)
        finally:
            if after is not None:
                after()
        return val if kind == 'return' else None
    return g()


def _gen_block(stmts, env, funcs, limit=10000):
    """run_block for the body of a generator function: a Python generator that yields what the body yields and returns
    ('return', value) | ('fall', None) | ('break', None) | ('continue', None)"""
    for s in stmts:
        if not _has_yield(s):
            r = run_block([s], env, funcs, limit)
            if r[0] != 'fall':
                return r
            continue
        if isinstance(s, ast.Expr) and isinstance(s.value, ast.Yield):
            yield (ev(s.value.value, env, funcs) if s.value.value is not None else None)
        elif isinstance(s, ast.Expr) and isinstance(s.value, ast.YieldFrom):
            yield from _iter(ev(s.value.value, env, funcs), s.value.value)
        elif isinstance(s, ast.Assign) and isinstance(s.value, ast.Yield) and not any(_has_yield(t) for t in s.targets):
            sent = yield (ev(s.value.value, env, funcs) if s.value.value is not None else None)
            for t in s.targets:
                _bind(t, sent, env, funcs)
        elif isinstance(s, ast.Assign) and isinstance(s.value, ast.YieldFrom) and not any(_has_yield(t) for t in s.targets):
            res = yield from _iter(ev(s.value.value, env, funcs), s.value.value)
            for t in s.targets:
                _bind(t, res, env, funcs)
        elif isinstance(s, ast.Return) and isinstance(s.value, ast.YieldFrom):
            res = yield from _iter(ev(s.value.value, env, funcs), s.value.value)
            return ('return', res)
        elif isinstance(s, ast.If) and not _has_yield(s.test):
            r = yield from _gen_block(s.body if ev(s.test, env, funcs) else s.orelse, env, funcs, limit)
            if r[0] != 'fall':
                return r
        elif isinstance(s, ast.For) and not _has_yield(s.iter) and not _has_yield(s.target):
            n_it = 0
            broke = False
            for item in _iter(ev(s.iter, env, funcs), s.iter):
                n_it += 1
                if n_it > limit * 10:
                    raise Raised('NonTermination', 'a loop ran for more than %d iterations on this small input' % (limit * 10))
                _bind(s.target, item, env, funcs)
                r = yield from _gen_block(s.body, env, funcs, limit)
                if r[0] == 'break':
                    broke = True
                    break
                if r[0] == 'return':
                    return r
            if s.orelse and not broke:
                r2 = yield from _gen_block(s.orelse, env, funcs, limit)
                if r2[0] != 'fall':
                    return r2
        elif isinstance(s, ast.While) and not _has_yield(s.test):
            n_it = 0
            broke = False
            while ev(s.test, env, funcs):
                n_it += 1
                if n_it > limit * 10:
                    raise Raised('NonTermination', 'a loop ran for more than %d iterations on this small input' % (limit * 10))
                r = yield from _gen_block(s.body, env, funcs, limit)
                if r[0] == 'break':
                    broke = True
                    break
                if r[0] == 'return':
                    return r
            if s.orelse and not broke:
                r2 = yield from _gen_block(s.orelse, env, funcs, limit)
                if r2[0] != 'fall':
                    return r2
        elif isinstance(s, ast.Try):
            r = ('fall', None)
            try:
                try:
                    r = yield from _gen_block(s.body, env, funcs, limit)
                except _BODY_ERRORS as ex:
                    h = _matching_handler(s, ex)
                    if h is None:
                        raise
                    if h.name:
                        env[h.name] = ex
                    r = yield from _gen_block(h.body, env, funcs, limit)
                else:
                    if s.orelse:
                        r2 = yield from _gen_block(s.orelse, env, funcs, limit)
                        if r2[0] != 'fall':
                            r = r2
            finally:
                if s.finalbody:
                    if any(_has_yield(x) for x in s.finalbody):
                        raise Unsupported('yield in a finally block')
                    r3 = run_block(s.finalbody, env, funcs, limit)
                    if r3[0] != 'fall':
                        r = r3
            if r[0] != 'fall':
                return r
        elif isinstance(s, ast.With) and not any(_has_yield(it_.context_expr) for it_ in s.items) and \
                all(isinstance(it_.context_expr, ast.Call) and ast.unparse(it_.context_expr.func).split('.')[-1] in ('catch_warnings', 'suppress', 'nullcontext', 'errstate') for it_ in s.items):
            r = yield from _gen_block(s.body, env, funcs, limit)
            if r[0] != 'fall':
                return r
        else:
            raise Unsupported('yield inside %s' % _unparse(s)[:80])
    return ('fall', None)


_MATCH_BUILTINS = {'int': int, 'float': float, 'str': str, 'bool': bool, 'list': list, 'tuple': tuple, 'dict': dict, 'set': set, 'frozenset': frozenset,
                   'bytes': bytes, 'complex': complex}


def _match_pattern(p, v, env, funcs, binds):
    if isinstance(p, ast.MatchValue):
        pv = ev(p.value, env, funcs)
        if isinstance(pv, Obj) or isinstance(v, Obj):
            return bool(v == pv)
        return v == pv
    if isinstance(p, ast.MatchSingleton):
        return v is p.value
    if isinstance(p, ast.MatchAs):
        if p.pattern is not None and not _match_pattern(p.pattern, v, env, funcs, binds):
            return False
        if p.name is not None:
            binds[p.name] = v
        return True
    if isinstance(p, ast.MatchOr):
        for alt in p.patterns:
            b2 = {}
            if _match_pattern(alt, v, env, funcs, b2):
                binds.update(b2)
                return True
        return False
    if isinstance(p, ast.MatchSequence):
        if not isinstance(v, (list, tuple)) or isinstance(v, (str, bytes)):
            if isinstance(v, (Obj, PyStub)):
                raise Unsupported('sequence pattern on an abstract object')
            return False
        stars = [i_ for i_, q in enumerate(p.patterns) if isinstance(q, ast.MatchStar)]
        if not stars:
            return len(v) == len(p.patterns) and all(_match_pattern(q, x, env, funcs, binds) for q, x in zip(p.patterns, v))
        k_ = stars[0]
        after = len(p.patterns) - k_ - 1
        if len(v) < len(p.patterns) - 1:
            return False
        if not all(_match_pattern(q, x, env, funcs, binds) for q, x in zip(p.patterns[:k_], v[:k_])):
            return False
        if after and not all(_match_pattern(q, x, env, funcs, binds) for q, x in zip(p.patterns[k_ + 1:], v[len(v) - after:])):
            return False
        if p.patterns[k_].name is not None:
            binds[p.patterns[k_].name] = list(v[k_:len(v) - after])
        return True
    if isinstance(p, ast.MatchMapping):
        if not isinstance(v, dict):
            if isinstance(v, (Obj, PyStub)):
                raise Unsupported('mapping pattern on an abstract object')
            return False
        keys = [ev(k_, env, funcs) for k_ in p.keys]
        for k_, q in zip(keys, p.patterns):
            if k_ not in v or not _match_pattern(q, v[k_], env, funcs, binds):
                return False
        if p.rest is not None:
            binds[p.rest] = {k_: x for k_, x in v.items() if k_ not in keys}
        return True
    if isinstance(p, ast.MatchClass) and isinstance(p.cls, ast.Name) and p.cls.id in _MATCH_BUILTINS and p.cls.id not in env and not p.kwd_patterns and len(p.patterns) <= 1:
        if isinstance(v, (Obj, PyStub)) or not isinstance(v, _MATCH_BUILTINS[p.cls.id]):
            return False
        return not p.patterns or _match_pattern(p.patterns[0], v, env, funcs, binds)
    if isinstance(p, ast.MatchClass) and not p.patterns:
        # case Track(): / case GeoCoords() | ENUCoords(): / case Point(x=0): - an isinstance test as the interpreter makes it, then the named attributes
        probe = dict(env)
        probe['_match_subject_'] = v
        test = ast.Call(func=ast.Name(id='isinstance', ctx=ast.Load()), args=[ast.Name(id='_match_subject_', ctx=ast.Load()), p.cls], keywords=[])
        if not ev(test, probe, funcs):
            return False
        for attr, q in zip(p.kwd_attrs, p.kwd_patterns):
            get = ast.Attribute(value=ast.Name(id='_match_subject_', ctx=ast.Load()), attr=attr, ctx=ast.Load())
            try:
                av = ev(get, probe, funcs)
            except AttributeError:
                return False
            if not _match_pattern(q, av, env, funcs, binds):
                return False
        return True
    raise Unsupported('match pattern %s' % type(p).__name__)


def _run_match(s, env, funcs, limit):
    subject = ev(s.subject, env, funcs)
    for case in s.cases:
        binds = {}
        if not _match_pattern(case.pattern, subject, env, funcs, binds):
            continue
        for k_, v_ in binds.items():
            _bind(ast.Name(id=k_, ctx=ast.Store()), v_, env, funcs)
        if case.guard is not None and not ev(case.guard, env, funcs):
            continue
        return run_block(case.body, env, funcs, limit)
    return ('fall', None)


def _cm_call(cm, name, *args):
    if isinstance(cm, Obj):
        if name not in cm.methods:
            raise TypeError('%r object does not support the context manager protocol' % (cm.clsname or 'record'))
        return cm.call(name, *args)
    if not hasattr(cm, name):
        raise Unsupported('context manager without %s' % name)
    return getattr(cm, name)(*args)


_BODY_ERRORS = (Raised, IndexError, KeyError, ZeroDivisionError, TypeError, AttributeError, ValueError, RuntimeError, OverflowError, AssertionError, StopIteration, NameError)
# what the interpreted program itself may raise (as opposed to Unsupported: a limit of the interpreter)
PROGRAM_ERRORS = _BODY_ERRORS


def _run_with(s, k, env, funcs, limit):
    """with a, b, ...: the items are entered in order and left in reverse; an exception of the body is handed to __exit__, which may swallow it"""
    if k == len(s.items):
        return run_block(s.body, env, funcs, limit)
    it = s.items[k]
    cm = ev(it.context_expr, env, funcs)
    if not isinstance(cm, Obj) and (not hasattr(cm, '__enter__') or not hasattr(cm, '__exit__')):
        raise Unsupported('with %s' % _unparse(it.context_expr))
    v_ = _cm_call(cm, '__enter__')
    if it.optional_vars is not None:
        _bind(it.optional_vars, v_, env, funcs)
    try:
        r = _run_with(s, k + 1, env, funcs, limit)
    except _BODY_ERRORS as ex:
        et_, ev_ = type(ex), ex
        if isinstance(ex, Raised) and ex.value is not None:
            ev_ = ex.value
            et_ = type(ev_) if isinstance(ev_, BaseException) else getattr(ev_, 'cls_object', type(ex))
        elif isinstance(ex, Raised) and _builtin_exception(ex.name) is not None:
            et_ = _builtin_exception(ex.name)
        if _cm_call(cm, '__exit__', et_, ev_, None):
            return ('fall', None)
        raise
    _cm_call(cm, '__exit__', None, None, None)
    return r


def _matching_handler(s, ex):
    import builtins
    exname = ex.name if isinstance(ex, Raised) else type(ex).__name__
    excls = getattr(builtins, exname, None) if isinstance(ex, Raised) else type(ex)
    if not (isinstance(excls, type) and issubclass(excls, BaseException)):
        excls = None
    also = set(getattr(ex, 'bases', ()) or ())
    for h in s.handlers:
        names = [] if h.type is None else [ast.unparse(x).split('.')[-1] for x in (h.type.elts if isinstance(h.type, ast.Tuple) else [h.type])]
        if also & set(names):
            return h
        if h.type is None or exname in names or 'BaseException' in names or ('Exception' in names and exname not in ('SystemExit', 'KeyboardInterrupt', 'GeneratorExit')):
            return h
        for nm in names:            # the hierarchy of the builtin exceptions (LookupError, ArithmeticError, RuntimeError, OSError ...)
            hc = getattr(builtins, nm, None)
            if excls is not None and isinstance(hc, type) and issubclass(hc, BaseException) and issubclass(excls, hc):
                return h
    return None



def ev(n, env, funcs=None):
    """evaluate an AST expression over integers standing for ranks"""
    if isinstance(n, ast.Name):
        if n.id in env:
            return env[n.id]
        if funcs and '__globals__' in funcs and n.id in funcs['__globals__']:
            return funcs['__globals__'][n.id]
        if n.id in _PLUMBING:
            try:
                return funcs['__name__'](n.id) if funcs and '__name__' in funcs else pure_module(n.id)
            except Unsupported:
                return pure_module(n.id)
        if funcs and '__name__' in funcs:
            try:
                return funcs['__name__'](n.id)
            except Unsupported:
                if n.id in _VALUE_BUILTINS:
                    return builtin_value(n.id, funcs)
                if _builtin_exception(n.id) is not None:
                    return _builtin_exception(n.id)
                raise
        if n.id in _VALUE_BUILTINS:
            return builtin_value(n.id, funcs)
        if _builtin_exception(n.id) is not None:
            return _builtin_exception(n.id)
        raise Unsupported('free name %s' % n.id)
    if isinstance(n, ast.Attribute):
        txt = _unparse(n)
        if txt in env:
            return env[txt]
        if txt.startswith('tracklib.') and _is_dotted(n) and 'tracklib' not in env and funcs and '__name__' in funcs:
            return funcs['__name__'](n.attr)            # tracklib.Track, tracklib.core.Track ... : the object of that name in the package
        if txt in ('math.inf', 'np.inf', 'numpy.inf'):
            return float('inf')
        if txt.startswith('sys.float_info.') and hasattr(__import__('sys').float_info, n.attr):
            return getattr(__import__('sys').float_info, n.attr)
        if txt in ('math.pi', 'np.pi'):
            return 3.141592653589793
        if isinstance(n.value, ast.Name) and n.value.id == 'math' and 'math' not in env:
            import math as _math
            if hasattr(_math, n.attr):
                return getattr(_math, n.attr)       # math.sqrt taken as a value (handed to a pointwise operator)
        if isinstance(n.value, ast.Name) and n.value.id in ('np', 'numpy') and n.value.id not in env and funcs and n.attr in funcs:
            return funcs[n.attr]
        v = ev(n.value, env, funcs)
        if isinstance(v, Table) and hasattr(v, 'attrs') and n.attr in v.attrs:
            return v.attrs[n.attr]
        if isinstance(v, Obj):
            an = _mangled(n.attr, env)
            if an in v.fields:
                return v.fields[an]
            cc = getattr(v, 'consts', None) or {}
            if an in cc or n.attr in cc:
                cv_ = cc[an] if an in cc else cc[n.attr]
                if isinstance(cv_, Obj) and '__get__' in cv_.methods:
                    return cv_.call('__get__', v, None)           # a descriptor kept at class level
                return cv_
            if n.attr in v.methods:
                if _is_property(v.methods[n.attr]):
                    if any(_deco_name(d_) == 'cached_property' for d_ in v.methods[n.attr].decorator_list):
                        v.fields[n.attr] = v.call(n.attr)         # functools.cached_property: computed once, then an instance attribute
                        return v.fields[n.attr]
                    return v.call(n.attr)              # @property: reading the attribute runs the getter
                return _BoundMethod(v, n.attr)
            if _demangled(v, n.attr) is not None:
                return _BoundMethod(v, _demangled(v, n.attr))
            if getattr(v, 'ntfields', None) and n.attr == '_fields':
                return tuple(v.ntfields)
            if '__getattr__' in v.methods:
                return v.call('__getattr__', n.attr)          # (called when the normal lookup has failed, as Python does)
            if getattr(v, 'constructed', False) and '__getattr__' not in v.methods and an not in getattr(v, 'classnames', ()) \
                    and n.attr not in getattr(v, 'classnames', ()):
                raise AttributeError('%r object has no attribute %r' % (v.clsname, n.attr))
            raise Unsupported('record has no field %s' % an)
        if isinstance(v, PyStub):
            if hasattr(v, n.attr):
                return getattr(v, n.attr)
            am_ = _mangled(n.attr, env)             # self.__x inside a repository method interpreted on an abstract object
            if am_ != n.attr and hasattr(v, am_):
                return getattr(v, am_)
            rm_ = getattr(v, 'repo_methods', None)
            if rm_ and n.attr in rm_ and not _is_property(rm_[n.attr]):
                # a method of the repository class the model stands for, taken as a value (iter(F.pop_smallest, sentinel))
                return (lambda v_, nm_: lambda *a_, **k_: Obj.call(_Bound(v_, v_.repo_methods, getattr(v_, 'repo_funcs', funcs)), nm_, *a_, **k_))(v, n.attr)
            raise Unsupported('abstract object has no attribute %s' % n.attr)
        if n.attr == '__name__' and callable(v) and hasattr(v, '__name__'):
            return v.__name__
        if isinstance(v, (list, dict, set, str, tuple)) and not isinstance(v, Table) and hasattr(v, n.attr) and callable(getattr(v, n.attr)):
            return getattr(v, n.attr)       # a bound method of a builtin container taken as a value (map(d.__getitem__, keys))
        if v is None:
            raise AttributeError("'NoneType' object has no attribute %r (%s)" % (n.attr, txt))
        if isinstance(v, (int, float, complex)) and n.attr in ('real', 'imag'):
            return getattr(v, n.attr)
        if isinstance(v, int) and type(v).__name__ == '_IntMember' and n.attr in ('name', 'value'):
            return getattr(v, n.attr)
        if isinstance(v, tuple) and hasattr(type(v), '_fields') and (n.attr in type(v)._fields or n.attr == '_fields'):
            return getattr(v, n.attr)              # a field of a namedtuple
        if _is_std_container(v) and n.attr in ('maxlen', 'default_factory', 'maps'):
            return getattr(v, n.attr)
        if isinstance(v, BaseException) and not isinstance(v, (Unsupported, Raised)) and n.attr in ('args', '__cause__', '__context__', 'errno', 'strerror', 'filename', 'code', 'value', 'name', 'key', 'obj'):
            return getattr(v, n.attr)
        if isinstance(v, Raised) and n.attr == 'args':
            return (str(v),)
        if isinstance(v, Raised) and n.attr in ('__cause__', '__context__'):
            return None
        raise Unsupported('attribute %s' % txt)
    if isinstance(n, ast.Subscript):
        base = ev(n.value, env, funcs)
        idx = ev(n.slice, env, funcs)
        if isinstance(base, Table):
            return base.read(idx)
        if isinstance(base, Obj) and '__getitem__' in base.methods:
            return base.call('__getitem__', idx)
        if isinstance(base, Obj) and getattr(base, 'ntfields', None):
            return tuple(base.fields[k_] for k_ in base.ntfields)[idx]
        if isinstance(base, PyStub) and _repo_method(base, '__getitem__') is not None:
            return Obj.call(_Bound(base, base.repo_methods, getattr(base, 'repo_funcs', funcs)), '__getitem__', idx)
        if isinstance(base, PyStub) and hasattr(base, '__getitem__'):
            return base[idx]
        if _is_std_container(base) and not isinstance(base, tuple):
            return base[idx]                       # defaultdict (creates the entry), Counter (0), deque (by position)
        if isinstance(base, dict) and not isinstance(base, Table):
            if idx not in base:
                raise KeyError(idx)
            return base[idx]
        if isinstance(base, (list, tuple, str, range)) and (isinstance(idx, int) or hasattr(idx, '__index__')) and not isinstance(idx, slice):
            k_ = int(idx) if isinstance(idx, (bool, int)) else idx.__index__()          # (True and False index as 1 and 0, numpy integers by __index__)
            if not -len(base) <= k_ < len(base):
                raise IndexError('index %d out of range (length %d) in %s' % (k_, len(base), _unparse(n)))
            return base[k_]
        if isinstance(base, (list, tuple, str, range)) and isinstance(idx, slice):
            return base[idx]
        if isinstance(base, (list, tuple, str)) and isinstance(idx, (float, str, type(None))):
            raise TypeError('%s indices must be integers or slices, not %s' % (type(base).__name__, type(idx).__name__))
        if base is None or isinstance(base, (int, float, bool)):
            raise TypeError("'%s' object is not subscriptable (%s)" % (type(base).__name__, _unparse(n)))
        raise Unsupported('subscript %s' % _unparse(n))
    if isinstance(n, ast.Constant):
        return n.value
    if isinstance(n, ast.Call):
        f = n.func
        fname = f.id if isinstance(f, ast.Name) else (f.attr if isinstance(f, ast.Attribute) else None)
        if fname is None:
            callee = ev(f, env, funcs)          # a callable taken from a table, returned by a call, ...
            if isinstance(callee, Obj):
                if '__call__' not in callee.methods:
                    raise TypeError('%r object is not callable' % (callee.clsname or 'record'))
                return callee.call('__call__', *_args(n, env, funcs), **_kw(n, env, funcs))
            if not callable(callee):
                raise TypeError('%r object is not callable' % type(callee).__name__)
            return callee(*_args(n, env, funcs), **_kw(n, env, funcs))
        if isinstance(f, ast.Name) and f.id in env and callable(env[f.id]) and not isinstance(env[f.id], type):
            return env[f.id](*_args(n, env, funcs), **_kw(n, env, funcs))      # a local bound to a function (lambda, parameter)
        if isinstance(f, ast.Name) and f.id in env and isinstance(env[f.id], Obj):
            if '__call__' not in env[f.id].methods:
                raise TypeError('%r object is not callable' % (env[f.id].clsname or 'record'))
            return env[f.id].call('__call__', *_args(n, env, funcs), **_kw(n, env, funcs))
        if isinstance(f, ast.Name) and f.id in env and isinstance(env[f.id], type) and (env[f.id].__module__ == 'collections' or hasattr(env[f.id], '_fields')):
            return env[f.id](*_args(n, env, funcs), **_kw(n, env, funcs))      # a namedtuple class / a collections class held in a local
        if isinstance(f, ast.Attribute) and fname == 'is_integer' and not n.args:
            v = ev(f.value, env, funcs)
            if isinstance(v, (int, float)):
                return float(v).is_integer()
            raise Unsupported('is_integer on a non-number')
        if isinstance(f, ast.Attribute) and isinstance(f.value, ast.Name) and f.value.id == 'copy' and 'copy' not in env and fname in ('copy', 'deepcopy') and len(n.args) == 1:
            # the standard copy module (not numpy.copy, which the harness may provide under the same bare name)
            from . import absint as _absint
            return (_absint.shallow_copy if fname == 'copy' else _absint.deep_copy)(ev(n.args[0], env, funcs))
        if isinstance(f, ast.Attribute) and isinstance(f.value, ast.Name) and f.value.id == 'object' and 'object' not in env and fname in ('__setattr__', '__getattribute__', '__delattr__'):
            a_ = _args(n, env, funcs)
            if a_ and isinstance(a_[0], Obj) and len(a_) >= 2 and isinstance(a_[1], str):
                if fname == '__setattr__' and len(a_) == 3:
                    a_[0].fields[a_[1]] = a_[2]
                    return None
                if fname == '__getattribute__' and len(a_) == 2:
                    if a_[1] in a_[0].fields:
                        return a_[0].fields[a_[1]]
                    raise AttributeError(a_[1])
            raise Unsupported('object.%s' % fname)
        if isinstance(f, ast.Attribute) and isinstance(f.value, ast.Name) and f.value.id in _MATCH_BUILTINS and f.value.id not in env \
                and not (funcs and f.value.id in funcs) and not fname.startswith('_') and hasattr(_MATCH_BUILTINS[f.value.id], fname):
            # dict.fromkeys(...), str.join(sep, parts), float.fromhex(...): a method of a builtin type reached through the type
            a_ = [(list(_iter(x_)) if not isinstance(x_, (str, bytes, dict, list, tuple, set, frozenset, int, float, bool, type(None), complex)) and not isinstance(x_, (Obj, PyStub)) and hasattr(x_, '__next__') else x_)
                  for x_ in _args(n, env, funcs)]
            return getattr(_MATCH_BUILTINS[f.value.id], fname)(*a_, **_kw(n, env, funcs))
        if isinstance(f, ast.Attribute) and isinstance(f.value, ast.Name) and f.value.id in _PLUMBING and f.value.id not in env \
                and not (funcs and f.value.id in funcs.get('__globals__', ())):
            return getattr(pure_module(f.value.id), fname)(*_args(n, env, funcs), **_kw(n, env, funcs))
        if isinstance(f, ast.Attribute) and isinstance(f.value, ast.Name) and f.value.id in _SAFE_MODULES and f.value.id not in env \
                and hasattr(_SAFE_MODULES[f.value.id], fname) and not fname.startswith('_'):
            # a pure standard-library function on text / numbers (re.match, string constants ...)
            a_ = _args(n, env, funcs)
            if any(isinstance(x_, (Obj, PyStub)) for x_ in a_):
                raise Unsupported('call %s on an abstract object' % _unparse(n))
            return getattr(_SAFE_MODULES[f.value.id], fname)(*a_, **_kw(n, env, funcs))
        if isinstance(f, ast.Attribute) and _unparse(f.value) not in ('math', 'np', 'numpy', 'tracklib', 'progressbar') and not (_is_dotted(f.value) and _unparse(f.value).startswith('tracklib.')):
            try:
                rv = ev(f.value, env, funcs)
            except Unsupported:
                rv = None
            if isinstance(rv, _types.GeneratorType) and fname in ('send', 'close', 'throw'):
                try:
                    return getattr(rv, fname)(*_args(n, env, funcs))
                except StopIteration:
                    raise Raised('StopIteration', '')
            if isinstance(rv, _types.FunctionType) and not fname.startswith('_') and callable(rv.__dict__.get(fname)):
                pass
            if isinstance(rv, _types.FunctionType) and not fname.startswith('_') and callable(rv.__dict__.get(fname)):
                return rv.__dict__[fname](*_args(n, env, funcs), **_kw(n, env, funcs))      # itertools.chain.from_iterable
            if type(rv).__module__ == 're' and not fname.startswith('_') and hasattr(rv, fname):      # re.Match / re.Pattern objects
                return getattr(rv, fname)(*_args(n, env, funcs), **_kw(n, env, funcs))
            if (type(rv) in (list, set, dict, str, tuple, bytes, frozenset) or _is_std_container(rv)) and not fname.startswith('__') and hasattr(rv, fname) \
                    and (not fname.startswith('_') or fname in ('_replace', '_asdict', '_make')):
                kw_ = _kw(n, env, funcs)
                if fname == 'sort' and callable(kw_.get('key')) or fname == 'sort':
                    return _sort_in_place(rv, kw_)
                a_ = _args(n, env, funcs)
                if fname in _TAKES_ITERABLES:
                    # a record that is iterable through its class (an iterator class of the repository) handed to a native container method
                    a_ = [(_iter(x_, n) if isinstance(x_, Obj) and ('__iter__' in x_.methods or '__getitem__' in x_.methods or getattr(x_, 'ntfields', None)) else x_) for x_ in a_]
                return getattr(rv, fname)(*a_, **kw_)
            if isinstance(rv, PyStub):
                if _repo_method(rv, fname) is not None or not hasattr(rv, fname):
                    rm = getattr(rv, 'repo_methods', None)
                    if rm and fname in rm:
                        # a method the model does not define: interpret the repository's own method with self = the abstract object
                        return Obj.call(_Bound(rv, rm, getattr(rv, 'repo_funcs', funcs)), fname, *_args(n, env, funcs),
                                        **_kw(n, env, funcs))
                    raise Unsupported('abstract object has no method %s' % fname)
                kw = _kw(n, env, funcs)
                return getattr(rv, fname)(*_args(n, env, funcs), **kw)
            if isinstance(rv, Obj) and getattr(rv, 'ntfields', None) and fname in ('_replace', '_asdict') and fname not in rv.methods:
                if fname == '_asdict' and not n.args and not n.keywords:
                    return {k_: rv.fields[k_] for k_ in rv.ntfields}
                kw_ = _kw(n, env, funcs)
                if fname == '_replace' and not n.args:
                    bad_ = [k_ for k_ in kw_ if k_ not in rv.ntfields]
                    if bad_:
                        raise ValueError('Got unexpected field names: %r' % bad_)
                    from . import absint as _absint
                    new_ = _absint.shallow_copy(rv)
                    for k_, v_ in kw_.items():
                        new_.fields[k_] = v_
                    return new_
            if isinstance(rv, Obj) and fname not in rv.methods and callable(rv.fields.get(_mangled(fname, env))):
                # a callable stored in a field (a model function handed to the object)
                return rv.fields[_mangled(fname, env)](*_args(n, env, funcs), **_kw(n, env, funcs))
            if isinstance(rv, Obj) and fname not in rv.methods and fname not in rv.fields:
                import types as _types2
                cf_ = (getattr(rv, 'consts', None) or {}).get(fname)
                if isinstance(cf_, _types2.FunctionType):
                    # a function bound to a class attribute after the class body (by a class decorator, by Cls.name = function): a method
                    return cf_(rv, *_args(n, env, funcs), **_kw(n, env, funcs))
            if isinstance(rv, Obj) and fname not in rv.methods and _mangled(fname, env) not in rv.methods and _mangled(fname, env) not in rv.fields \
                    and '__getattr__' in rv.methods and not (getattr(rv, 'ntfields', None) and fname in ('_replace', '_asdict')):
                target_ = rv.call('__getattr__', fname)
                if isinstance(target_, Obj):
                    if '__call__' not in target_.methods:
                        raise TypeError('%r object is not callable' % (target_.clsname or 'record'))
                    return target_.call('__call__', *_args(n, env, funcs), **_kw(n, env, funcs))
                if not callable(target_):
                    raise TypeError('%r object is not callable' % type(target_).__name__)
                return target_(*_args(n, env, funcs), **_kw(n, env, funcs))
            if isinstance(rv, Obj) and (fname in rv.methods or _mangled(fname, env) in rv.methods):
                mn_ = _mangled(fname, env)
                if mn_ in rv.methods:
                    fname = mn_             # self.__helper() inside class C is C's own private method, whatever subclasses define
                rv.depth += 1
                try:
                    if rv.depth > 60:
                        raise Unsupported('recursion in %s' % fname)
                    return rv.call(fname, *_args(n, env, funcs), **_kw(n, env, funcs))
                finally:
                    rv.depth -= 1
        if isinstance(f, ast.Attribute) and fname == 'append' and len(n.args) == 1:
            tgt = ev(f.value, env, funcs)
            if isinstance(tgt, list):
                tgt.append(ev(n.args[0], env, funcs))
                return None
        if fname in ('real', 'imag') and len(n.args) == 1:
            v = ev(n.args[0], env, funcs)
            if isinstance(v, (int, float, complex)):
                return complex(v).real if fname == 'real' else complex(v).imag
            raise Unsupported('real/imag of a non-number')
        if fname == 'isinstance' and len(n.args) == 2:
            v0 = ev(n.args[0], env, funcs)
            cls = n.args[1].elts if isinstance(n.args[1], ast.Tuple) else [n.args[1]]
            names = set()
            pytypes = []
            for c in cls:
                nm_ = _unparse(c).split('.')[-1]
                # a class held in a variable (a dispatch table of (type, handler) pairs) or computed (type(None)): the class it denotes
                if isinstance(c, (ast.Name, ast.Attribute, ast.Subscript, ast.Call)) and (not isinstance(c, ast.Name) or c.id in env):
                    try:
                        cv = ev(c, env, funcs)
                    except (Unsupported, KeyError, IndexError, AttributeError):
                        cv = None
                    for one in (cv if isinstance(cv, tuple) else (cv,)):
                        one = getattr(one, '__wrapped_type__', one)
                        if isinstance(one, type):
                            names.add(one.__name__)
                            pytypes.append(one)
                            nm_ = None
                        elif one is not None and hasattr(one, '_qual'):
                            names.add(str(one._qual).split('.')[-1])
                            nm_ = None
                if nm_ is not None:
                    names.add(nm_)
            if isinstance(v0, Obj):
                return True if not v0.isa else bool(v0.isa & names)
            if isinstance(v0, PyStub):
                return bool(set(getattr(v0, 'isa', ())) & names)
            builtin = {'bool': bool, 'int': int, 'float': float, 'str': str, 'list': list, 'tuple': tuple, 'dict': dict, 'set': set, 'complex': complex,
                       'NoneType': type(None), 'frozenset': frozenset, 'bytes': bytes, 'range': range, 'object': object}
            if set(getattr(type(v0), 'isa', ())) & names:      # numpy scalar models name their numpy classes
                return True
            if any(isinstance(v0, t_) for t_ in pytypes if t_.__module__ == 'builtins'):
                return True
            if isinstance(v0, BaseException):
                if isinstance(v0, Raised):
                    return bool(({v0.name} | set(v0.bases)) & names) or any(_builtin_exception(v0.name) is not None and _builtin_exception(nm_) is not None and issubclass(_builtin_exception(v0.name), _builtin_exception(nm_)) for nm_ in names)
                return any(_builtin_exception(nm_) is not None and isinstance(v0, _builtin_exception(nm_)) for nm_ in names)
            return any(isinstance(v0, builtin[nm_]) for nm_ in names if nm_ in builtin)        # subclasses included, as in Python
        args = []
        for a_ in n.args:
            if isinstance(a_, ast.Starred):
                args.extend(_iter(ev(a_.value, env, funcs), a_.value))
            else:
                args.append(ev(a_, env, funcs))
        if isinstance(f, ast.Name) and f.id not in env and _builtin_exception(fname) is not None and not (isinstance(funcs, dict) and fname in funcs):
            shadow_ = None
            if funcs and '__name__' in funcs:
                try:
                    shadow_ = funcs['__name__'](fname)
                except Unsupported:
                    shadow_ = None
            if shadow_ is None or shadow_ is _builtin_exception(fname):
                return _builtin_exception(fname)(*args, **_kw(n, env, funcs))        # ValueError('...'): the exception object
        if fname == 'float' and len(args) == 1 and isinstance(args[0], str):
            return float(args[0])           # ValueError for text that is not a number, as in Python (isfloat() relies on it)
        if isinstance(f, ast.Name) and fname == 'eval' and len(args) == 1 and isinstance(args[0], str):
            # eval of a text built by the code (an aggregate name applied to a local): evaluated by this interpreter in the same environment
            try:
                tree = ast.parse(args[0], mode='eval')
            except SyntaxError as ex:
                raise Raised('SyntaxError', str(ex))
            return ev(tree.body, env, funcs)
        if isinstance(f, ast.Name) and fname == 'super':
            if 'self' not in env and 'cls' in env and not args:
                return _ClsSuper()               # (in a class-level hook: super().__init_subclass__(**kw) reaches object's, which does nothing)
            if 'self' not in env:
                raise Unsupported('super() outside a method')
            if isinstance(env['self'], Obj):
                if not getattr(env['self'], 'mro', None) or '__cls__' not in env:
                    raise Unsupported('super() on a record without class table')
                return _ObjSuper(env['self'], env['__cls__'])
            return _SuperProxy(env['self'])
        if isinstance(f, ast.Name) and fname == 'set' and len(args) <= 1 and not n.keywords:
            if not args:
                return set()
            if isinstance(args[0], (list, tuple, set, range)):
                return set(args[0])
            return set(_iter(args[0], n))
        if isinstance(f, ast.Name) and fname == 'dict' and not args and not n.keywords:
            return {}
        if isinstance(f, ast.Name) and fname == 'dict' and len(args) <= 1:
            d_ = {}
            if args:
                src_ = args[0]
                if isinstance(src_, dict):
                    d_.update(src_)
                else:
                    for p_ in _iter(src_, n):
                        p_ = list(_iter(p_, n))
                        if len(p_) != 2:
                            raise ValueError('dictionary update sequence element has length %d; 2 is required' % len(p_))
                        d_[p_[0]] = p_[1]
            for k in n.keywords:
                if k.arg:
                    d_[k.arg] = ev(k.value, env, funcs)
            return d_
        if isinstance(f, ast.Name) and fname in ('list', 'tuple', 'set', 'len', 'sorted') and len(args) == 1 and type(args[0]).__name__ in ('dict_keys', 'dict_values', 'dict_items'):
            args = [list(args[0])]
        if isinstance(f, ast.Name) and fname == 'list' and len(args) == 1 and isinstance(args[0], dict):
            return list(args[0])
        if isinstance(f, ast.Name) and fname == 'list' and len(args) == 1 and isinstance(args[0], (set, dict)):
            return sorted(args[0], key=repr)
        if isinstance(f, ast.Name) and fname in ('list', 'tuple') and len(args) <= 1 and not n.keywords:
            if not args:
                return [] if fname == 'list' else ()
            if isinstance(args[0], (list, tuple, range)):
                return list(args[0]) if fname == 'list' else tuple(args[0])
        _shadowed = fname in env or bool(funcs and fname in funcs and fname not in funcs.get('__defaults__', ()) and fname not in funcs.get('__np_names__', ()))
        if isinstance(f, ast.Name) and not _shadowed and fname in ('map', 'filter') and len(args) >= 2 and not n.keywords:
            args[0] = _as_callable(args[0])
            if fname == 'map':
                if not callable(args[0]):
                    raise TypeError('%r object is not callable' % type(args[0]).__name__)
                return map(args[0], *[_iter(a_, n) for a_ in args[1:]])
            if len(args) == 2 and (callable(args[0]) or args[0] is None):
                return filter(args[0], _iter(args[1], n))
        if isinstance(f, ast.Name) and not _shadowed and fname == 'zip' and not (set(_kw(n, env, funcs)) - {'strict'}):
            return zip(*[_iter(a_, n) for a_ in args], **_kw(n, env, funcs))
        if isinstance(f, ast.Name) and not _shadowed and fname == 'reversed' and len(args) == 1 and not n.keywords:
            a0 = args[0]
            if isinstance(a0, (list, tuple, range, str, dict)) or (_is_std_container(a0) and hasattr(a0, '__reversed__')):
                return reversed(a0)
            if isinstance(a0, Obj):
                if '__reversed__' in a0.methods:
                    return _iter(a0.call('__reversed__'), n)
                if '__len__' in a0.methods and '__getitem__' in a0.methods:
                    return (a0.call('__getitem__', i_) for i_ in range(a0.call('__len__') - 1, -1, -1))
            if isinstance(a0, PyStub) and hasattr(type(a0), '__reversed__'):
                return a0.__reversed__()
            if isinstance(a0, PyStub) and hasattr(a0, '__len__') and hasattr(a0, '__getitem__'):
                return iter([a0[i_] for i_ in range(len(a0) - 1, -1, -1)])
            raise TypeError('%r object is not reversible' % type(a0).__name__)
        if isinstance(f, ast.Name) and not _shadowed and fname == 'sorted' and len(args) == 1:
            kw_ = _kw(n, env, funcs)
            if set(kw_) <= {'key', 'reverse'}:
                out_ = list(_iter(args[0], n))
                _sort_in_place(out_, kw_)
                return out_
        if isinstance(f, ast.Name) and not _shadowed and fname in ('min', 'max') and args:
            kw_ = _kw(n, env, funcs)
            if set(kw_) <= {'key', 'default'} and (kw_.get('key') is None or callable(kw_.get('key'))):
                if len(args) == 1:
                    return _min_max(fname, _iter(args[0], n), kw_.get('key'), kw_['default'] if 'default' in kw_ else _MISSING_ARG)
                if 'default' in kw_:
                    raise TypeError('Cannot specify a default for %s() with multiple positional arguments' % fname)
                return _min_max(fname, args, kw_.get('key'))
        if isinstance(f, ast.Name) and not _shadowed and fname in ('all', 'any') and len(args) == 1 and not n.keywords:
            return {'all': all, 'any': any}[fname](_iter(args[0], n))
        if isinstance(f, ast.Name) and not _shadowed and fname == 'sum' and 1 <= len(args) <= 2:
            kw_ = _kw(n, env, funcs)
            if set(kw_) <= {'start'} and not (kw_ and len(args) == 2):
                start_ = args[1] if len(args) == 2 else kw_.get('start', 0)
                if isinstance(start_, str):
                    raise TypeError("sum() can't sum strings [use ''.join(seq) instead]")
                items_ = list(_iter(args[0], n))
                if not any(isinstance(x_, Obj) for x_ in items_) and not isinstance(start_, Obj):
                    return sum(items_, start_)
                for x_ in items_:
                    start_ = _add(start_, x_)
                return start_
        if fname == 'abs' and len(args) == 1:
            return abs(args[0])
        if fname == 'fabs' and len(args) == 1:
            return math.fabs(args[0]) if isinstance(args[0], (int, float)) and not isinstance(args[0], complex) else abs(args[0])
        if fname == 'len' and len(args) == 1 and isinstance(args[0], Obj) and '__len__' in args[0].methods:
            return args[0].call('__len__')
        if fname == 'len' and len(args) == 1 and isinstance(args[0], Obj) and getattr(args[0], 'ntfields', None):
            return len(args[0].ntfields)
        if fname == 'len' and len(args) == 1 and (isinstance(args[0], (list, tuple, dict, str, set, frozenset, bytes, range)) or _is_std_container(args[0]) or (isinstance(args[0], PyStub) and hasattr(args[0], '__len__'))):
            return len(args[0])
        if fname == 'range' and isinstance(f, ast.Name) and all(isinstance(a, int) for a in args):
            return list(range(*args))
        if fname == 'enumerate' and isinstance(f, ast.Name) and 1 <= len(args) <= 2 and fname not in env:
            start_ = args[1] if len(args) == 2 else _kw(n, env, funcs).get('start', 0)
            return enumerate(_iter(args[0], n), start_)
        if isinstance(f, ast.Name) and fname == 'getattr' and len(args) in (2, 3) and isinstance(args[1], str):
            o_ = args[0]
            if isinstance(o_, Obj):
                nm_ = args[1]            # (a string given to getattr is not name-mangled)
                if nm_ in o_.fields:
                    return o_.fields[nm_]
                if args[1] in o_.methods:
                    if _is_property(o_.methods[args[1]]):
                        return o_.call(args[1])
                    return _BoundMethod(o_, args[1])           # getattr(obj, 'method'): a bound method taken as a value
                if _demangled(o_, args[1]) is not None:
                    return _BoundMethod(o_, _demangled(o_, args[1]))      # getattr(self, '_Track__helper'): the private method under its mangled name
                consts_ = getattr(o_, 'consts', None) or {}
                if args[1] in consts_:
                    return consts_[args[1]]
                if len(args) == 3:
                    return args[2]
                raise AttributeError(args[1])
            if isinstance(o_, PyStub):
                if hasattr(o_, args[1]) and _repo_method(o_, args[1]) is None:
                    return getattr(o_, args[1])
                if _repo_method(o_, args[1]) is not None or (getattr(o_, 'repo_methods', None) and args[1] in o_.repo_methods):
                    # a method the model leaves to the repository's class: bound, to be interpreted when called
                    nm__ = args[1]
                    return lambda *a_, **k_: Obj.call(_Bound(o_, o_.repo_methods, getattr(o_, 'repo_funcs', funcs)), nm__, *a_, **k_)
                if hasattr(o_, args[1]):
                    return getattr(o_, args[1])
                if len(args) == 3:
                    return args[2]
                raise AttributeError(args[1])
            raise Unsupported('getattr on %r' % (o_,))
        if isinstance(f, ast.Name) and fname == 'type' and len(args) == 1:
            if isinstance(args[0], Obj) and getattr(args[0], 'clsqual', None):
                # the class of a record: a stand-in type that prints and compares as the repository class does
                q_ = args[0].clsqual
                if q_ not in _TYPE_CACHE:
                    mod_, _, nm_ = q_.rpartition('.')
                    _TYPE_CACHE[q_] = type(nm_, (), {'__module__': mod_})
                return _TYPE_CACHE[q_]
            return type(args[0])
        if isinstance(f, ast.Name) and fname == 'str' and len(args) == 1 and (isinstance(args[0], (type, str, int, float)) or (isinstance(args[0], BaseException) and not isinstance(args[0], Unsupported))):
            return str(args[0])
        if isinstance(f, ast.Name) and fname == 'str' and len(args) == 1 and (args[0] is None or isinstance(args[0], (PyStub, Obj, list, tuple, dict))):
            if isinstance(args[0], Obj) and '__str__' in args[0].methods:
                return args[0].call('__str__')
            if isinstance(args[0], Obj) and (getattr(args[0], 'enum_member', None) or getattr(args[0], 'ntfields', None) or getattr(args[0], 'dcfields', None) is not None or '__repr__' in args[0].methods
                                             or getattr(args[0], 'excbases', None)):
                return str(args[0])
            return '<%s>' % type(args[0]).__name__ if isinstance(args[0], (PyStub, Obj)) else str(args[0])
        if fname in ('int', 'float', 'bool') and len(args) == 1:
            return {'int': int, 'float': float, 'bool': bool}[fname](args[0])
        if isinstance(f, ast.Name) and fname == 'complex' and 1 <= len(args) <= 2 and all(isinstance(a_, (int, float, complex)) for a_ in args):
            return complex(*args)
        if isinstance(f, ast.Name) and fname == 'round' and 1 <= len(args) <= 2:
            return round(*args)
        if isinstance(f, ast.Name) and fname == 'divmod' and len(args) == 2:
            return divmod(*args)
        if isinstance(f, ast.Name) and fname == 'globals' and not args and not n.keywords and fname not in env and funcs and '__name__' in funcs:
            return _GlobalsView(funcs)
        if isinstance(f, ast.Name) and fname == 'slice' and 1 <= len(args) <= 3 and fname not in env and not n.keywords:
            return slice(*args)
        kw_ = _kw(n, env, funcs)
        if funcs and isinstance(f, ast.Name) and fname in funcs.get('__defaults__', ()) and '__resolve__' in funcs:
            target = funcs['__resolve__'](n, fname)
            if target is not None:
                return target(*args, **kw_)
        if funcs and fname in funcs and fname not in ('__globals__', '__name__', '__resolve__', '__defaults__', '__default_values__', '__np_names__', '__made__'):
            return funcs[fname](*args, **kw_)
        if funcs and '__resolve__' in funcs:
            target = funcs['__resolve__'](n, fname)
            if target is not None:
                return target(*args, **kw_)
        if fname in env and callable(env[fname]):
            return env[fname](*args, **kw_)
        if isinstance(f, ast.Name) and funcs and '__name__' in funcs and fname not in _BUILTIN_CALLS:
            # a repository class (or another callable the harness resolves by name) used as a function: ObsTime(), Bbox(ll, ur) ...
            try:
                target = funcs['__name__'](fname)
            except Unsupported:
                target = None
            if callable(target):
                return target(*args, **kw_)
            if isinstance(target, Obj) and '__call__' in target.methods:
                return target.call('__call__', *args, **kw_)              # a callable object bound to a module-level name
        if isinstance(f, ast.Name):
            # remaining builtins with their Python meaning on the interpreter's values
            if fname == 'id' and len(args) == 1:
                return id(args[0])
            if fname == 'hash' and len(args) == 1:
                a0 = args[0]
                return hash(a0)                # (records answer through their native __hash__: the repository's, the tuple's, or identity)
            if fname == 'repr' and len(args) == 1:
                a0 = args[0]
                if isinstance(a0, Obj):
                    return repr(a0) if ('__repr__' in a0.methods or getattr(a0, 'ntfields', None) or getattr(a0, 'dcfields', None) is not None or getattr(a0, 'enum_member', None)) else '<%s object>' % (sorted(a0.isa)[0] if a0.isa else 'record')
                if isinstance(a0, PyStub):
                    return repr(a0) if type(a0).__repr__ is not object.__repr__ else '<%s object>' % type(a0).__name__
                return repr(a0)
            if fname in ('list', 'tuple', 'set', 'frozenset') and len(args) <= 1 and not kw_:
                ctor = {'list': list, 'tuple': tuple, 'set': set, 'frozenset': frozenset}[fname]
                if not args:
                    return ctor()
                a0 = args[0]
                return ctor(_iter(a0, n))
            if fname == 'vars' and len(args) == 1 and isinstance(args[0], Obj):
                return args[0].fields               # the instance dictionary itself, in assignment order (as vars() gives __dict__)
            if fname == 'setattr' and len(args) == 3 and isinstance(args[1], str):
                o_ = args[0]
                if isinstance(o_, Obj):
                    o_.fields[args[1]] = args[2]          # (a string given to setattr is not name-mangled)
                    return None
                if isinstance(o_, PyStub):
                    setattr(o_, args[1], args[2])
                    return None
            if fname == 'delattr' and len(args) == 2 and isinstance(args[1], str) and isinstance(args[0], Obj):
                if args[1] not in args[0].fields:
                    raise AttributeError(args[1])
                del args[0].fields[args[1]]
                return None
            if fname == 'callable' and len(args) == 1:
                return callable(args[0]) or (isinstance(args[0], Obj) and '__call__' in args[0].methods)
            if fname == 'hasattr' and len(args) == 2 and isinstance(args[1], str):
                o_ = args[0]
                if isinstance(o_, Obj):
                    if args[1] in o_.methods and _is_property(o_.methods[args[1]]) and args[1] not in o_.fields:
                        try:
                            o_.call(args[1])
                            return True
                        except AttributeError:
                            return False
                        except Raised as ex_:
                            if ex_.name == 'AttributeError':
                                return False
                            raise
                    if args[1] in o_.fields or args[1] in o_.methods or _demangled(o_, args[1]) is not None or args[1] in (getattr(o_, 'consts', None) or {}):
                        return True
                    if '__getattr__' in o_.methods:
                        try:
                            o_.call('__getattr__', args[1])
                            return True
                        except AttributeError:
                            return False
                        except Raised as ex_:
                            if ex_.name == 'AttributeError':
                                return False
                            raise
                    return False
                return hasattr(o_, args[1])
            if fname in ('ord', 'chr', 'bin', 'hex', 'oct', 'pow') and all(isinstance(a_, (int, float, str)) for a_ in args):
                return {'ord': ord, 'chr': chr, 'bin': bin, 'hex': hex, 'oct': oct, 'pow': pow}[fname](*args)
            if fname == 'print':
                return None
            if fname == 'iter' and len(args) == 1:
                return _iter(args[0], n)
            if fname == 'iter' and len(args) == 2 and callable(_as_callable(args[0])):
                args[0] = _as_callable(args[0])
                return iter(args[0], args[1])
            if fname == 'next' and 1 <= len(args) <= 2:
                it_ = args[0]
                if isinstance(it_, Obj) and '__next__' in it_.methods:
                    it_ = _ObjNext(it_)
                if not hasattr(it_, '__next__'):
                    raise TypeError('%r object is not an iterator' % type(it_).__name__)
                try:
                    return next(it_)
                except StopIteration:
                    if len(args) == 2:
                        return args[1]
                    raise Raised('StopIteration', '')
        raise Unsupported('call %s' % _unparse(n))
    if isinstance(n, ast.Compare):
        l = ev(n.left, env, funcs)
        ok = True
        for op, c in zip(n.ops, n.comparators):
            if not ok:
                return ok                  # a < b < c: c is not evaluated once a < b is false
            r = ev(c, env, funcs)
            t = type(op)
            if isinstance(r, Obj) and t in (ast.In, ast.NotIn):
                if '__contains__' in r.methods:
                    inside = bool(r.call('__contains__', l))
                else:
                    inside = any(x is l or x == l for x in _iter(r, c))
                ok = ok and (inside == (t is ast.In))
                l = r
                continue
            if (isinstance(l, Obj) or isinstance(r, Obj)) and t in (ast.Is, ast.IsNot):
                ok = ok and ((l is r) == (t is ast.Is))
                l = r
                continue
            if isinstance(l, Obj) and t in (ast.In, ast.NotIn) and isinstance(r, (list, tuple, set)):
                inside = any(x is l or (isinstance(x, Obj) and '__eq__' in l.methods and l.call('__eq__', x)) for x in r)
                ok = ok and (inside == (t is ast.In))
                l = r
                continue
            if (isinstance(l, Obj) or isinstance(r, Obj)) and t not in (ast.In, ast.NotIn):
                if not isinstance(l, Obj) and t in (ast.Eq, ast.NotEq):
                    # None == record, 3 == record: Python falls back to the reflected method, then to identity
                    res = r.call('__eq__', l) if '__eq__' in r.methods else (l is r)
                    ok = ok and (bool(res) == (t is ast.Eq))
                elif isinstance(l, Obj) and t in (ast.Eq, ast.NotEq) and '__eq__' not in l.methods and (getattr(l, 'ntfields', None) or getattr(l, 'dcfields', None) is not None):
                    ok = ok and (bool(l == r) == (t is ast.Eq))
                elif isinstance(l, Obj) and getattr(l, 'ntfields', None) and t in (ast.Lt, ast.LtE, ast.Gt, ast.GtE) and \
                        {ast.Lt: '__lt__', ast.LtE: '__le__', ast.Gt: '__gt__', ast.GtE: '__ge__'}[t] not in l.methods:
                    res_ = {ast.Lt: l.__lt__, ast.LtE: l.__le__, ast.Gt: l.__gt__, ast.GtE: l.__ge__}[t](r)
                    if res_ is NotImplemented:
                        raise TypeError('ordering not supported between a %s and %r' % (l.clsname, type(r).__name__))
                    ok = ok and bool(res_)
                elif isinstance(l, Obj) and t in (ast.Eq, ast.NotEq) and '__eq__' not in l.methods:
                    ok = ok and ((l is r) == (t is ast.Eq))
                else:
                    ok = ok and _obj_compare(t, l, r)
                l = r
                continue
            if t is ast.Lt:
                ok = ok and l < r
            elif t is ast.LtE:
                ok = ok and l <= r
            elif t is ast.Gt:
                ok = ok and l > r
            elif t is ast.GtE:
                ok = ok and l >= r
            elif t in (ast.Is, ast.IsNot) and any(v_ is None or isinstance(v_, bool) or hasattr(type(v_), 'dtype') or isinstance(v_, (PyStub, list, dict, set)) for v_ in (l, r)):
                # identity with None / True / False / a mutable object is identity (0 is False and numpy.bool_(False) is False are both false)
                ok = ok and ((l is r) == (t is ast.Is))
            elif t in (ast.Eq, ast.Is):
                ok = ok and l == r
            elif t in (ast.NotEq, ast.IsNot):
                ok = ok and l != r
            elif t is ast.In:
                ok = ok and l in r
            elif t is ast.NotIn:
                ok = ok and l not in r
            else:
                raise Unsupported(_unparse(n))
            l = r
        return ok
    if isinstance(n, ast.BoolOp):
        if isinstance(n.op, ast.And):
            v = True
            for x in n.values:
                v = ev(x, env, funcs)
                if not v:
                    return v
            return v
        v = False
        for x in n.values:
            v = ev(x, env, funcs)
            if v:
                return v
        return v
    if isinstance(n, ast.UnaryOp):
        v = ev(n.operand, env, funcs)
        if isinstance(n.op, ast.Not):
            return not v
        if isinstance(n.op, ast.USub):
            return -v
        if isinstance(n.op, ast.UAdd):
            return +v
        if isinstance(n.op, ast.Invert):
            return ~v
    if isinstance(n, ast.BinOp):
        a, b = ev(n.left, env, funcs), ev(n.right, env, funcs)
        t = type(n.op)
        if isinstance(a, Obj) or isinstance(b, Obj):
            return _obj_binop(t, a, b, n)
        if t is ast.Add:
            return a + b
        if t is ast.Sub:
            return a - b
        if t is ast.Mult:
            return a * b
        if t is ast.Mod:
            return a % b
        if t is ast.FloorDiv:
            return a // b
        if t is ast.Div:
            return a / b
        if t is ast.BitAnd and isinstance(a, bool) and isinstance(b, bool):
            return a and b
        if t is ast.BitOr and isinstance(a, bool) and isinstance(b, bool):
            return a or b
        if t is ast.Pow:
            return a ** b
        if t is ast.RShift:
            return a >> b
        if t is ast.LShift:
            return a << b
        if t in (ast.BitAnd, ast.BitOr, ast.BitXor) and isinstance(a, int) and isinstance(b, int):
            return a & b if t is ast.BitAnd else (a | b if t is ast.BitOr else a ^ b)
        _setlike = (set, frozenset, type({}.keys()), type({}.items()))
        if t in (ast.BitAnd, ast.BitOr, ast.BitXor) and ((isinstance(a, _setlike) and isinstance(b, _setlike)) or (t is ast.BitOr and isinstance(a, dict) and isinstance(b, dict))
                                                       or (hasattr(a, 'dtype') or hasattr(b, 'dtype'))):
            # set / dict-view algebra, dict union (their members are compared through the records' own __eq__ / __hash__), element-wise masks
            return a & b if t is ast.BitAnd else (a | b if t is ast.BitOr else a ^ b)
        if t is ast.MatMult:
            return a @ b
    if isinstance(n, ast.GeneratorExp):
        return _lazy_genexp(n, env, funcs)
    if isinstance(n, ast.ListComp):
        out = []
        _comprehend(n, env, funcs, lambda sc: out.append(ev(n.elt, sc, funcs)))
        return out
    if isinstance(n, ast.JoinedStr):
        out_ = []
        for part in n.values:
            if isinstance(part, ast.Constant):
                out_.append(str(part.value))
            else:
                spec = ev(part.format_spec, env, funcs) if part.format_spec is not None else ''
                out_.append(_format_value(ev(part.value, env, funcs), part.conversion, spec))
        return ''.join(out_)
    if isinstance(n, ast.Lambda):
        params = [a.arg for a in getattr(n.args, 'posonlyargs', [])] + [a.arg for a in n.args.args]
        defaults = [ev(d, env, funcs) for d in n.args.defaults]           # evaluated once, where the lambda is created
        kw_defaults = {a.arg: ev(d, env, funcs) for a, d in zip(n.args.kwonlyargs, n.args.kw_defaults) if d is not None}
        kwonly = [a.arg for a in n.args.kwonlyargs]
        captured = env                                                    # the enclosing scope itself: free names are looked up at call time

        def lam(*args, **kwargs):
            e2 = _flat(captured)
            e2.pop('__comp_outer__', None)
            for i_, d_ in enumerate(defaults):
                e2[params[len(params) - len(defaults) + i_]] = d_
            e2.update(kw_defaults)
            if len(args) > len(params) and n.args.vararg is None:
                raise TypeError('<lambda>() takes %d positional arguments but %d were given' % (len(params), len(args)))
            for p_, a_ in zip(params, args):
                e2[p_] = a_
            if n.args.vararg is not None:
                e2[n.args.vararg.arg] = tuple(args[len(params):])
            rest = {}
            for k_, v_ in kwargs.items():
                if k_ in params or k_ in kwonly:
                    e2[k_] = v_
                elif n.args.kwarg is not None:
                    rest[k_] = v_
                else:
                    raise TypeError('<lambda>() got an unexpected keyword argument %r' % k_)
            if n.args.kwarg is not None:
                e2[n.args.kwarg.arg] = rest
            missing = [p_ for p_ in params[:len(params) - len(defaults)] if p_ not in e2 or (p_ in captured and p_ not in kwargs and params.index(p_) >= len(args))]
            if missing:
                raise TypeError('<lambda>() missing required positional arguments: %s' % missing)
            return ev(n.body, e2, funcs)
        return lam
    if isinstance(n, (ast.DictComp, ast.SetComp)):
        res = {} if isinstance(n, ast.DictComp) else set()
        if isinstance(n, ast.DictComp):
            def emit(sc):
                k_ = ev(n.key, sc, funcs)
                res[k_] = ev(n.value, sc, funcs)
        else:
            def emit(sc):
                res.add(ev(n.elt, sc, funcs))
        _comprehend(n, env, funcs, emit)
        return res
    if isinstance(n, ast.NamedExpr) and isinstance(n.target, ast.Name):
        v_ = ev(n.value, env, funcs)
        e_ = env
        e_[n.target.id] = v_
        while dict.__contains__(e_, '__comp_outer__'):          # inside a comprehension the name is bound in the enclosing function
            e_ = dict.__getitem__(e_, '__comp_outer__')
            e_[n.target.id] = v_
        return v_
    if isinstance(n, ast.Slice):
        return slice(ev(n.lower, env, funcs) if n.lower is not None else None, ev(n.upper, env, funcs) if n.upper is not None else None,
                     ev(n.step, env, funcs) if n.step is not None else None)
    if isinstance(n, (ast.Yield, ast.YieldFrom)):
        raise Unsupported('yield in an expression position: %s' % _unparse(n))
    if isinstance(n, ast.IfExp):
        return ev(n.body, env, funcs) if ev(n.test, env, funcs) else ev(n.orelse, env, funcs)
    if isinstance(n, ast.Dict):
        out_ = {}
        for k, v in zip(n.keys, n.values):
            if k is None:                     # {**other}
                out_.update(ev(v, env, funcs))
            else:
                out_[ev(k, env, funcs)] = ev(v, env, funcs)
        return out_
    if isinstance(n, (ast.Set, ast.Tuple, ast.List)):
        items = []
        for e in n.elts:
            if isinstance(e, ast.Starred):    # [first, *rest]
                items.extend(_iter(ev(e.value, env, funcs), e.value))
            else:
                items.append(ev(e, env, funcs))
        return set(items) if isinstance(n, ast.Set) else (tuple(items) if isinstance(n, ast.Tuple) else items)
    raise Unsupported(_unparse(n) if isinstance(n, ast.AST) else str(n))


def _is_dotted(n):
    while isinstance(n, ast.Attribute):
        n = n.value
    return isinstance(n, ast.Name)


def _iterable(it, node):
    """the items of a value a for-clause iterates over"""
    if isinstance(it, dict) or type(it).__name__ in ('dict_keys', 'dict_values', 'dict_items'):
        return list(it)
    if isinstance(it, (list, tuple, range, set, frozenset, str)):
        return list(it) if not isinstance(it, GenList) else it
    if isinstance(it, Obj):
        if '__iter__' in it.methods:
            return _iterable(it.call('__iter__'), node)
        if '__getitem__' in it.methods and '__len__' in it.methods:
            return [it.call('__getitem__', i_) for i_ in range(it.call('__len__'))]
    if hasattr(it, '__iter__') and not isinstance(it, Obj):
        return list(it)
    if isinstance(it, Obj):
        return list(_iter(it, node))
    raise Unsupported('comprehension over %s' % _unparse(node))


def _comprehend(n, env, funcs, emit):
    """run the for / if clauses of a comprehension.  As in Python, the comprehension has ONE scope of its own (a function created
    inside it sees the last value its loop variables took); the first iterable is evaluated in the enclosing scope."""
    scope = _flat(env)
    scope['__comp_outer__'] = env

    def gen(k):
        if k == len(n.generators):
            emit(scope)
            return
        g = n.generators[k]
        for item in _iter(ev(g.iter, env if k == 0 else scope, funcs), g.iter):
            _bind(g.target, item, scope, funcs)
            if all(ev(c_, scope, funcs) for c_ in g.ifs):
                gen(k + 1)
    gen(0)


def free_names(n):
    return sorted({x.id for x in ast.walk(n) if isinstance(x, ast.Name) and isinstance(x.ctx, ast.Load)
                   and x.id not in ('min', 'max', 'abs', 'int', 'float', 'bool', 'math', 'True', 'False')})


def run_block(stmts, env, funcs=None, limit=10000):
    """Tiny concrete interpreter for comparison-only code (if/elif/else, assignments, return).
    Returns ('return', value) | ('fall', None).  `env` is updated in place."""
    for s in stmts:
        if isinstance(s, ast.Nonlocal):
            continue
        if isinstance(s, ast.Global):
            if not (funcs and '__globals__' in funcs):
                raise Unsupported('global statement')
            env.setdefault('__global_decl__', set()).update(s.names)
        elif isinstance(s, ast.Assign):
            v = ev(s.value, env, funcs)
            for t in s.targets:
                if isinstance(t, ast.Name) and t.id in env.get('__global_decl__', ()):
                    funcs['__globals__'][t.id] = v
                else:
                    _bind(t, v, env, funcs)
        elif isinstance(s, ast.AugAssign) and isinstance(s.target, ast.Subscript) and isinstance(ev(s.target.value, env, funcs), Table):
            base = ev(s.target.value, env, funcs)
            key = ev(s.target.slice, env, funcs)
            if not isinstance(base, Table):
                raise Unsupported('augmented store')
            cur = base.read(key)
            v = ev(s.value, env, funcs)
            t = type(s.op)
            base[key] = cur + v if t is ast.Add else cur - v if t is ast.Sub else cur * v
        elif isinstance(s, ast.AugAssign) and isinstance(s.target, (ast.Attribute, ast.Subscript)):
            cur = ev(s.target, env, funcs)
            v = ev(s.value, env, funcs)
            t = type(s.op)
            if isinstance(cur, Obj) or isinstance(v, Obj):
                _bind(s.target, _obj_binop(t, cur, v, s, inplace=True), env, funcs)
                continue
            if t not in _AUG:
                raise Unsupported('augmented assignment %s' % ast.unparse(s))
            _bind(s.target, _AUG[t](cur, v), env, funcs)
        elif isinstance(s, ast.AugAssign) and isinstance(s.target, ast.Name) and s.target.id in env.get('__global_decl__', ()) and funcs and '__globals__' in funcs:
            g_ = funcs['__globals__']
            if s.target.id not in g_:
                raise Raised('NameError', s.target.id)
            cur = g_[s.target.id]
            v = ev(s.value, env, funcs)
            t = type(s.op)
            if isinstance(cur, Obj) or isinstance(v, Obj):
                g_[s.target.id] = _obj_binop(t, cur, v, s, inplace=True)
            elif t not in _AUG:
                raise Unsupported('augmented assignment %s' % ast.unparse(s))
            elif isinstance(cur, list) and t is ast.Add and isinstance(v, (list, tuple)):
                cur.extend(v)
            else:
                g_[s.target.id] = _AUG[t](cur, v)
        elif isinstance(s, ast.AugAssign) and isinstance(s.target, ast.Name):
            cur = env[s.target.id]
            v = ev(s.value, env, funcs)
            t = type(s.op)
            if isinstance(cur, Obj) or isinstance(v, Obj):
                env[s.target.id] = _obj_binop(t, cur, v, s, inplace=True)
                continue
            if t not in _AUG:
                raise Unsupported('augmented assignment %s' % ast.unparse(s))
            if isinstance(cur, list) and t is ast.Add and isinstance(v, (list, tuple)):
                cur.extend(v)           # in place, as Python does
            else:
                env[s.target.id] = _AUG[t](cur, v)
        elif isinstance(s, ast.If):
            if ev(s.test, env, funcs):
                r = run_block(s.body, env, funcs)
            else:
                r = run_block(s.orelse, env, funcs)
            if r[0] != 'fall':
                return r
        elif isinstance(s, ast.Continue):
            return ('continue', None)
        elif isinstance(s, ast.Return):
            return ('return', ev(s.value, env, funcs) if s.value is not None else None)
        elif isinstance(s, (ast.Pass,)):
            pass
        elif isinstance(s, ast.Expr) and isinstance(s.value, ast.Constant):
            pass
        elif isinstance(s, ast.Expr) and isinstance(s.value, (ast.Call, ast.Yield, ast.YieldFrom, ast.Await, ast.NamedExpr, ast.Name, ast.Attribute, ast.BinOp, ast.Compare, ast.Subscript)):
            ev(s.value, env, funcs)
        elif isinstance(s, ast.For):
            it = _iter(ev(s.iter, env, funcs), s.iter)
            n_it = 0
            broke = False
            for item in it:
                n_it += 1
                if n_it > limit:
                    raise Raised('NonTermination', 'a loop ran for more than %d iterations on this small input' % limit)
                _bind(s.target, item, env, funcs)
                r = run_block(s.body, env, funcs, limit)
                if r[0] == 'break':
                    broke = True
                    break
                if r[0] == 'return':
                    return r
            if s.orelse and not broke:
                r2 = run_block(s.orelse, env, funcs, limit)
                if r2[0] in ('return', 'break', 'continue'):
                    return r2
        elif isinstance(s, ast.While):
            n_it = 0
            broke = False
            while ev(s.test, env, funcs):
                n_it += 1
                if n_it > limit:
                    raise Raised('NonTermination', 'a loop ran for more than %d iterations on this small input' % limit)
                r = run_block(s.body, env, funcs, limit)
                if r[0] == 'break':
                    broke = True
                    break
                if r[0] == 'return':
                    return r
            if s.orelse and not broke:
                r2 = run_block(s.orelse, env, funcs, limit)
                if r2[0] in ('return', 'break', 'continue'):
                    return r2
        elif isinstance(s, ast.Delete):
            for t in s.targets:
                if isinstance(t, ast.Name):
                    if dict.__contains__(env, t.id):
                        dict.__delitem__(env, t.id)
                        continue
                    raise Raised('UnboundLocalError' if t.id in env else 'NameError', t.id)
                if isinstance(t, ast.Attribute):
                    base = ev(t.value, env, funcs)
                    if isinstance(base, Obj):
                        an_ = _mangled(t.attr, env)
                        if an_ not in base.fields:
                            raise AttributeError(t.attr)
                        del base.fields[an_]
                        continue
                if isinstance(t, ast.Subscript):
                    base = ev(t.value, env, funcs)
                    key = ev(t.slice, env, funcs)
                    if isinstance(base, Obj) and '__delitem__' in base.methods:
                        base.call('__delitem__', key)
                        continue
                    if _is_std_container(base) and not isinstance(base, tuple):
                        del base[key]
                        continue
                    if isinstance(base, dict):
                        if key not in base:
                            raise KeyError(key)
                        del base[key]
                        continue
                    if isinstance(base, list) and isinstance(key, (int, slice)):
                        if isinstance(key, int) and not -len(base) <= key < len(base):
                            raise IndexError('del index %d out of range (length %d)' % (key, len(base)))
                        del base[key]
                        continue
                raise Unsupported('del %s' % ast.unparse(t))
        elif isinstance(s, ast.Raise):
            if s.exc is None:
                cur = env.get('__handling__')
                if cur is None:
                    raise RuntimeError('No active exception to reraise')
                raise cur
            fnode = s.exc.func if isinstance(s.exc, ast.Call) else s.exc
            text_ = ast.unparse(s.exc)[:200]
            r_ = None
            try:
                v_ = ev(s.exc, env, funcs)
                cause_ = ev(s.cause, env, funcs) if s.cause is not None else None
                r_ = _raise_value(v_, text_, cause_)
            except Unsupported:
                r_ = None
            if r_ is not None:
                raise r_
            raise Raised(ast.unparse(fnode).split('.')[-1], text_)
        elif isinstance(s, ast.Try):
            try:
                r = run_block(s.body, env, funcs, limit)
            except _BODY_ERRORS as ex:
                h = _matching_handler(s, ex)
                if h is None:
                    if s.finalbody:
                        run_block(s.finalbody, env, funcs, limit)
                    raise
                if h.name:
                    env[h.name] = ex.value if isinstance(ex, Raised) and ex.value is not None else ex
                outer_ = env.get('__handling__')
                env['__handling__'] = ex
                try:
                    r = run_block(h.body, env, funcs, limit)
                except BaseException:
                    env['__handling__'] = outer_
                    if s.finalbody:
                        run_block(s.finalbody, env, funcs, limit)
                    raise
                env['__handling__'] = outer_
            else:
                if s.orelse:
                    r2 = run_block(s.orelse, env, funcs, limit)
                    if r2[0] != 'fall':
                        r = r2
            if s.finalbody:
                r3 = run_block(s.finalbody, env, funcs, limit)
                if r3[0] != 'fall':
                    r = r3
            if r[0] != 'fall':
                return r
        elif isinstance(s, ast.Break):
            return ('break', None)
        elif isinstance(s, ast.Continue):
            return ('continue', None)
        elif isinstance(s, ast.Assert):
            if not ev(s.test, env, funcs):
                raise Raised('AssertionError', ast.unparse(s.test)[:200])
        elif isinstance(s, ast.FunctionDef):
            c_ = _closure(s, env, funcs)
            for d_ in reversed(_other_decorators(s)):
                c_ = ev(d_, env, funcs)(c_)
            env[s.name] = c_
        elif isinstance(s, ast.ClassDef):
            env[s.name] = _LocalClass(s, env, funcs)
        elif isinstance(s, ast.Match):
            r = _run_match(s, env, funcs, limit)
            if r[0] != 'fall':
                return r
        elif isinstance(s, ast.With) and all(isinstance(it.context_expr, ast.Call) and
                                             ast.unparse(it.context_expr.func).split('.')[-1] in ('catch_warnings', 'suppress', 'nullcontext', 'errstate')
                                             for it in s.items):
            r = run_block(s.body, env, funcs, limit)
            if r[0] != 'fall':
                return r
        elif isinstance(s, ast.With):
            r = _run_with(s, 0, env, funcs, limit)
            if r[0] != 'fall':
                return r
        elif isinstance(s, ast.Import):
            for al in s.names:
                if al.name in _PLUMBING:
                    env[al.asname or al.name] = pure_module(al.name)
                elif al.name == 'math' and al.asname:
                    env[al.asname] = _MathModule()
                elif al.asname and funcs and '__name__' in funcs:
                    try:
                        env[al.asname] = funcs['__name__'](al.asname)          # import tracklib.x.y as z, inside a function
                    except Unsupported:
                        pass
        elif isinstance(s, ast.ImportFrom):
            if s.module in _PLUMBING and s.level == 0:
                for al in s.names:
                    env[al.asname or al.name] = getattr(pure_module(s.module), al.name)
            elif s.module == 'math' and s.level == 0:
                import math as _math_
                for al in s.names:
                    if hasattr(_math_, al.name):
                        env[al.asname or al.name] = getattr(_math_, al.name)
            elif funcs and '__name__' in funcs:
                for al in s.names:
                    if al.asname and al.asname != al.name:
                        try:
                            env[al.asname] = funcs['__name__'](al.asname)          # from ..x import helper as _h, inside a function
                        except Unsupported:
                            try:
                                env[al.asname] = funcs['__name__'](al.name)
                            except Unsupported:
                                pass
        elif isinstance(s, ast.AnnAssign) and s.value is not None:
            _bind(s.target, ev(s.value, env, funcs), env, funcs)
        elif isinstance(s, ast.AnnAssign):
            pass                               # a bare annotation (x: float) binds nothing
        else:
            raise Unsupported('statement %s' % type(s).__name__)
    return ('fall', None)


class _LocalClass(PyStub):
    """a class defined inside a function (no bases, object, or other classes defined in the same function; plain or a dataclass): its
    instances are records whose methods see the enclosing frame"""

    def __init__(self, node, env, funcs):
        bases = []
        for b in node.bases:
            if ast.unparse(b) == 'object':
                continue
            try:
                v = ev(b, env, funcs)
            except Unsupported:
                v = None
            if isinstance(v, type) and issubclass(v, BaseException):
                object.__setattr__(self, '_excbase', v)
                continue
            if not isinstance(v, _LocalClass):
                raise Unsupported('local class %s with base %s' % (node.name, ast.unparse(b)))
            bases.append(v)
        if node.keywords:
            raise Unsupported('local class %s with a metaclass / class keywords' % node.name)
        dcopts = None
        for d in _other_decorators(node):
            try:
                v = ev(d.func if isinstance(d, ast.Call) else d, env, funcs)
            except Unsupported:
                v = None
            if getattr(v, 'stands_for', None) != 'dataclasses.dataclass':
                raise Unsupported('local class %s with decorator %s' % (node.name, ast.unparse(d)))
            dcopts = {'eq': True, 'frozen': False, 'order': False, 'init': True, 'repr': True}
            if isinstance(d, ast.Call):
                for kw in d.keywords:
                    if kw.arg in dcopts and isinstance(kw.value, ast.Constant):
                        dcopts[kw.arg] = bool(kw.value.value)
                    else:
                        raise Unsupported('dataclass option %s of local class %s' % (kw.arg, node.name))
        object.__setattr__(self, '_node', node)
        object.__setattr__(self, '_env', env)
        object.__setattr__(self, '_funcs', funcs)
        object.__setattr__(self, '_qual', '<locals>.' + node.name)
        object.__setattr__(self, 'isa', ('type',))
        object.__setattr__(self, '_bases', bases)
        methods, consts = {}, {}
        dcfields = []
        for b in reversed(bases):                      # (the first base wins)
            methods.update(b._methods)
            consts.update(b._consts)
        for b in bases:
            for f_ in (b._dcfields or ()):
                if f_[0] not in [g_[0] for g_ in dcfields]:
                    dcfields.append(f_)
        own = {}
        for st in node.body:
            if isinstance(st, ast.FunctionDef):
                methods[st.name] = own[st.name] = st
                if st.name.startswith('__') and not st.name.endswith('__'):
                    methods['_' + node.name.lstrip('_') + st.name] = own['_' + node.name.lstrip('_') + st.name] = st
            elif isinstance(st, (ast.Assign, ast.AnnAssign)) or (isinstance(st, ast.Expr) and isinstance(st.value, ast.Constant)) or isinstance(st, ast.Pass):
                if dcopts is not None and isinstance(st, ast.AnnAssign) and isinstance(st.target, ast.Name) and 'ClassVar' not in ast.unparse(st.annotation):
                    spec = (st.target.id, st.value is not None, None, True)          # (name, has a default, factory, in the constructor)
                    is_field = False
                    if isinstance(st.value, ast.Call):
                        try:
                            is_field = getattr(ev(st.value.func, _Scope(env), funcs), 'stands_for', None) == 'dataclasses.field'
                        except Unsupported:
                            is_field = False
                    if is_field:
                        has_default, factory, in_init = False, None, True
                        scope = _Scope(env)
                        dict.update(scope, consts)
                        for kw in st.value.keywords:
                            if kw.arg == 'default':
                                has_default = True
                                consts[st.target.id] = ev(kw.value, scope, funcs)
                            elif kw.arg == 'default_factory':
                                factory = ev(kw.value, scope, funcs)
                            elif kw.arg == 'init' and isinstance(kw.value, ast.Constant):
                                in_init = bool(kw.value.value)
                            elif kw.arg in ('repr', 'compare', 'hash') and isinstance(kw.value, ast.Constant) and kw.value.value is True:
                                pass
                            else:
                                raise Unsupported('field(%s=...) in local dataclass %s' % (kw.arg, node.name))
                        if st.value.args:
                            raise Unsupported('field(...) with positional arguments in local dataclass %s' % node.name)
                        spec = (st.target.id, has_default, factory, in_init)
                    dcfields = [f_ for f_ in dcfields if f_[0] != st.target.id] + [spec]
                    if is_field:
                        continue
                if isinstance(st, (ast.Assign, ast.AnnAssign)):
                    scope = _Scope(env)
                    dict.update(scope, consts)
                    run_block([st], scope, funcs)
                    consts.update({k_: v_ for k_, v_ in dict.items(scope)})
            else:
                raise Unsupported('statement %s in the body of local class %s' % (type(st).__name__, node.name))
        if dcopts is None and any(b._dcopts is not None for b in bases):
            # (a plain subclass of a dataclass keeps the generated constructor and comparison of its base)
            dcopts = [b._dcopts for b in bases if b._dcopts is not None][0]
        object.__setattr__(self, '_methods', methods)
        object.__setattr__(self, '_own', own)
        object.__setattr__(self, '_consts', consts)
        object.__setattr__(self, '_dcopts', dcopts)
        object.__setattr__(self, '_dcfields', dcfields if dcopts is not None else None)

    def _excnames(self):
        out = [self._node.name]
        d = object.__getattribute__(self, '__dict__')
        for b in d.get('_bases', ()):
            for n_ in b._excnames():
                if n_ not in out:
                    out.append(n_)
        if d.get('_excbase') is not None:
            out.extend(n_ for n_ in exception_names(d['_excbase']) if n_ not in out)
        return out

    def _is_exception(self):
        d = object.__getattribute__(self, '__dict__')
        return d.get('_excbase') is not None or any(b._is_exception() for b in d.get('_bases', ()))

    def _mro(self):
        out = [(self._node.name, dict(self._own))]
        for b in self._bases:
            for entry in b._mro():
                if entry[0] not in [e_[0] for e_ in out]:
                    out.append(entry)
        return out

    def __getattr__(self, k):
        d = object.__getattribute__(self, '__dict__')
        if k in d.get('_consts', {}):
            return d['_consts'][k]
        m = d.get('_methods', {}).get(k)
        if m is not None:
            static = any(isinstance(x, ast.Name) and _deco_name(x) == 'staticmethod' for x in m.decorator_list)
            if static:
                return make_func(m, d['_funcs'])
            if any(isinstance(x, ast.Name) and _deco_name(x) == 'classmethod' for x in m.decorator_list):
                return lambda *a, **kw: make_func(m, d['_funcs'])(self, *a, **kw)
        raise AttributeError(k)

    def __setattr__(self, k, v):
        self._consts[k] = v

    def __call__(self, *args, **kwargs):
        node = self._node
        mro = self._mro()
        obj = Obj({}, dict(self._methods), self._funcs, isa={e_[0] for e_ in mro})
        obj.clsname = node.name
        obj.clsqual = self._qual
        obj.consts = self._consts
        obj.owners = {}
        for cname, ms in reversed(mro):
            for k_ in ms:
                obj.owners[k_] = cname
        obj.mro = mro
        obj.classnames = set(self._consts)
        obj.closure = self._env
        if self._dcopts is not None:
            obj.dcfields = tuple(f_[0] for f_ in self._dcfields)
            obj.dcopts = self._dcopts
        if self._is_exception():
            obj.excbases = tuple(self._excnames())
            obj.isa = set(obj.isa) | set(obj.excbases)
            obj.fields['args'] = tuple(args)
        if '__init__' in obj.methods:
            obj.call('__init__', *args, **kwargs)
        elif self._is_exception():
            if kwargs:
                raise TypeError('%s() takes no keyword arguments' % node.name)
        elif self._dcopts is not None and self._dcopts['init']:
            names_ = [f_[0] for f_ in self._dcfields if f_[3]]
            if len(args) > len(names_):
                raise TypeError('%s.__init__() takes %d positional arguments but %d were given' % (node.name, len(names_) + 1, len(args) + 1))
            given = dict(zip(names_, args))
            for k_, v_ in kwargs.items():
                if k_ not in names_:
                    raise TypeError('%s.__init__() got an unexpected keyword argument %r' % (node.name, k_))
                if k_ in given:
                    raise TypeError('%s.__init__() got multiple values for argument %r' % (node.name, k_))
                given[k_] = v_
            for nm_, has_default, factory, in_init in self._dcfields:
                if nm_ in given:
                    obj.fields[nm_] = given[nm_]
                elif factory is not None:
                    obj.fields[nm_] = factory()
                elif has_default:
                    obj.fields[nm_] = self._consts[nm_]
                elif in_init:
                    raise TypeError('%s.__init__() missing required argument %r' % (node.name, nm_))
            if '__post_init__' in obj.methods:
                obj.call('__post_init__')
        elif args or kwargs:
            raise TypeError('%s() takes no arguments' % node.name)
        obj.constructed = True
        if self._dcopts is not None:
            obj.frozen = self._dcopts['frozen']
        return obj


class _Scope(dict):
    """the frame of a nested function: its own names, and behind them the LIVE frame it was defined in (free names are read there at
    the time of use; names declared nonlocal are written there), as Python's cells do"""

    def __init__(self, parent, nonlocals=()):
        dict.__init__(self)
        self.parent = parent
        self.nonlocals = frozenset(nonlocals)

    def __contains__(self, k):
        return dict.__contains__(self, k) or k in self.parent

    def __getitem__(self, k):
        if dict.__contains__(self, k):
            return dict.__getitem__(self, k)
        return self.parent[k]

    def get(self, k, default=None):
        if dict.__contains__(self, k):
            return dict.__getitem__(self, k)
        return self.parent.get(k, default)

    def __setitem__(self, k, v):
        if k in self.nonlocals:
            self.parent[k] = v
        else:
            dict.__setitem__(self, k, v)

    def setdefault(self, k, default=None):
        if k in self:
            return self[k]
        self[k] = default
        return default

    def update(self, *a, **k):
        for kk, vv in dict(*a, **k).items():
            self[kk] = vv


def _flat(env):
    """a plain copy of a frame with everything visible from it"""
    if isinstance(env, _Scope):
        d = _flat(env.parent)
        d.update(dict.items(env))
        return d
    return dict(env)


def _closure(fdef, env, funcs):
    """a nested function definition: interpreted in a copy of the enclosing environment taken at call time; defaults are evaluated
    where the function is defined; names declared nonlocal are written back to the enclosing environment"""
    params = [a.arg for a in getattr(fdef.args, 'posonlyargs', [])] + [a.arg for a in fdef.args.args]
    defaults = [ev(d, env, funcs) for d in fdef.args.defaults]
    kw_defaults = {a.arg: ev(d, env, funcs) for a, d in zip(fdef.args.kwonlyargs, fdef.args.kw_defaults) if d is not None}
    kwonly = [a.arg for a in fdef.args.kwonlyargs]
    nonlocals = [nm for st in ast.walk(fdef) if isinstance(st, ast.Nonlocal) for nm in st.names]

    def call(*args, **kwargs):
        e2 = _Scope(env, nonlocals)
        own = set()
        for i_, d_ in enumerate(defaults):
            e2[params[len(params) - len(defaults) + i_]] = d_
            own.add(params[len(params) - len(defaults) + i_])
        e2.update(kw_defaults)
        own |= set(kw_defaults)
        if len(args) > len(params) and fdef.args.vararg is None:
            raise TypeError('%s() takes %d positional arguments but %d were given' % (fdef.name, len(params), len(args)))
        for p_, a_ in zip(params, args):
            e2[p_] = a_
            own.add(p_)
        if fdef.args.vararg is not None:
            e2[fdef.args.vararg.arg] = tuple(args[len(params):])
        rest = {}
        for k_, v_ in kwargs.items():
            if k_ in params or k_ in kwonly:
                e2[k_] = v_
                own.add(k_)
            elif fdef.args.kwarg is not None:
                rest[k_] = v_
            else:
                raise TypeError('%s() got an unexpected keyword argument %r' % (fdef.name, k_))
        if fdef.args.kwarg is not None:
            e2[fdef.args.kwarg.arg] = rest
        missing = [p_ for p_ in params + kwonly if p_ not in own]
        if missing:
            raise TypeError('%s() missing required arguments: %s' % (fdef.name, missing))
        body = fdef.body
        dict.__setitem__(e2, '__comp_outer__', None)          # (a walrus in this function binds here, not in a comprehension around its definition)
        dict.pop(e2, '__comp_outer__')
        if _is_generator(fdef):
            return _start_generator(body, e2, funcs)
        kind, val = run_block(body, e2, funcs)
        return val if kind == 'return' else None
    call.__name__ = fdef.name
    return call


_AUG = {ast.RShift: lambda a, b: a >> b, ast.LShift: lambda a, b: a << b, ast.Add: lambda a, b: a + b, ast.Sub: lambda a, b: a - b, ast.Mult: lambda a, b: a * b, ast.Div: lambda a, b: a / b,
        ast.Pow: lambda a, b: a ** b, ast.FloorDiv: lambda a, b: a // b, ast.Mod: lambda a, b: a % b}


def _bind(t, v, env, funcs=None):
    if isinstance(t, ast.Name):
        if '__global_decl__' in env and t.id in env['__global_decl__'] and funcs and '__globals__' in funcs:
            funcs['__globals__'][t.id] = v          # a name declared global, wherever it is bound (tuple targets, loop targets, walrus)
        else:
            env[t.id] = v
    elif isinstance(t, ast.Subscript):
        base = ev(t.value, env, funcs)
        if isinstance(base, list):
            k = ev(t.slice, env, funcs)
            if isinstance(k, slice):
                if isinstance(v, Obj):
                    v = list(_iter(v, t))                  # (an iterator object of the repository: temp[1:] = _RunningSum(...))
                if not isinstance(v, (list, tuple, range, str, set, frozenset, dict)) and not hasattr(v, '__iter__'):
                    raise TypeError('can only assign an iterable')
                base[k] = list(v)
                return
            if isinstance(k, bool) or not isinstance(k, int) and not hasattr(k, '__index__'):
                raise TypeError('list indices must be integers or slices, not %s' % type(k).__name__)
            k = int(k)
            if not -len(base) <= k < len(base):
                raise IndexError('store index %r out of range in %s' % (k, ast.unparse(t)))
            base[k] = v
            return
        if isinstance(base, Obj) and '__setitem__' in base.methods:
            base.call('__setitem__', ev(t.slice, env, funcs), v)
            return
        if isinstance(base, PyStub) and _repo_method(base, '__setitem__') is not None:
            Obj.call(_Bound(base, base.repo_methods, getattr(base, 'repo_funcs', funcs)), '__setitem__', ev(t.slice, env, funcs), v)
            return
        if isinstance(base, dict) and not isinstance(base, Table):
            base[ev(t.slice, env, funcs)] = v
            return
        if isinstance(base, PyStub) and hasattr(base, '__setitem__'):
            base[ev(t.slice, env, funcs)] = v
            return
        if not isinstance(base, Table):
            raise Unsupported('store into %s' % ast.unparse(t))
        base[ev(t.slice, env, funcs)] = v
    elif isinstance(t, (ast.Tuple, ast.List)):
        if isinstance(v, (str, range, set, frozenset, dict)) or (hasattr(v, '__iter__') and not isinstance(v, (list, tuple))):
            v = list(v)
        elif isinstance(v, Obj) and ('__iter__' in v.methods or '__getitem__' in v.methods or getattr(v, 'ntfields', None)):
            v = list(_iter(v))
        if not isinstance(v, (list, tuple)):
            raise TypeError('cannot unpack non-iterable %s object' % type(v).__name__)
        stars = [i_ for i_, e_ in enumerate(t.elts) if isinstance(e_, ast.Starred)]
        if stars:
            k_ = stars[0]
            after = len(t.elts) - k_ - 1
            if len(v) < len(t.elts) - 1:
                raise ValueError('not enough values to unpack (expected at least %d, got %d)' % (len(t.elts) - 1, len(v)))
            for a, b in zip(t.elts[:k_], v[:k_]):
                _bind(a, b, env, funcs)
            _bind(t.elts[k_].value, list(v[k_:len(v) - after]), env, funcs)
            for a, b in zip(t.elts[k_ + 1:], v[len(v) - after:] if after else []):
                _bind(a, b, env, funcs)
            return
        if len(v) != len(t.elts):
            raise ValueError('%s values to unpack (expected %d, got %d)' % ('too many' if len(v) > len(t.elts) else 'not enough', len(t.elts), len(v)))
        for a, b in zip(t.elts, v):
            _bind(a, b, env, funcs)
    elif isinstance(t, ast.Attribute):
        base = ev(t.value, env, funcs)
        if isinstance(base, Obj):
            if getattr(base, 'frozen', False):
                import dataclasses as _dc
                raise _dc.FrozenInstanceError("cannot assign to field %r" % t.attr)
            if getattr(base, 'ntfields', None) and t.attr in base.ntfields:
                raise AttributeError("can't set attribute")
            cd_ = (getattr(base, 'consts', None) or {}).get(t.attr)
            if isinstance(cd_, Obj) and '__set__' in cd_.methods and t.attr not in base.fields:
                cd_.call('__set__', base, v)                    # a data descriptor kept at class level
                return
            if t.attr in base.methods and _is_property(base.methods[t.attr]) and t.attr not in base.fields:
                if t.attr + '.setter' not in base.methods:
                    raise AttributeError("property %r of %r object has no setter" % (t.attr, base.clsname))
                base.call(t.attr + '.setter', v)
                return
            base.fields[_mangled(t.attr, env)] = v
        elif isinstance(base, PyStub):
            setattr(base, t.attr, v)
        else:
            raise Unsupported('attribute store %s' % ast.unparse(t))
    else:
        raise Unsupported('target %s' % ast.unparse(t))


def make_func(fn, funcs=None, self_obj=None):
    """a callable that interprets the repository function `fn` (ast.FunctionDef) with this module's interpreter"""
    def call(*args, **kwargs):
        params = [a.arg for a in getattr(fn.args, 'posonlyargs', [])] + [a.arg for a in fn.args.args]
        env = {}
        if self_obj is not None and params and params[0] == 'self':
            env['self'] = self_obj
            params = params[1:]
        _bind_params(fn, params, args, kwargs, env, funcs, getattr(fn, 'name', 'function'), full=True)
        body = fn.body
        if body and isinstance(body[0], ast.Expr) and isinstance(body[0].value, ast.Constant) and isinstance(body[0].value.value, str):
            body = body[1:]
        if _is_generator(fn):
            return _start_generator(body, env, funcs)
        kind, val = run_block(body, env, funcs)
        return val if kind == 'return' else None
    call.__name__ = getattr(fn, 'name', 'function')
    return _decorate(fn, call, funcs)


_TAKES_ITERABLES = frozenset(('extend', 'update', 'join', 'union', 'intersection', 'difference', 'symmetric_difference', 'issubset', 'issuperset', 'isdisjoint',
                              'intersection_update', 'difference_update', 'symmetric_difference_update', 'extendleft', 'fromkeys'))
_PLAIN_DECORATORS = ('staticmethod', 'classmethod', 'property', 'abstractmethod', 'cached_property')


def _other_decorators(fn):
    out = []
    for d in getattr(fn, 'decorator_list', ()):
        if isinstance(d, ast.Name) and _deco_name(d) in _PLAIN_DECORATORS:
            continue
        if isinstance(d, ast.Attribute) and isinstance(d.value, ast.Name) and d.value.id.lstrip('_') in ('functools', 'abc') and d.attr in _PLAIN_DECORATORS:
            continue
        if isinstance(d, ast.Attribute) and d.attr in ('setter', 'deleter', 'getter', 'abstractmethod', 'cached_property'):
            continue
        out.append(d)
    return out


def _decorate(fn, call, funcs, env=None):
    """f = decorator(f), innermost first, as the def statement does; the decorated function is made once per function and name table
    (a cache kept by a decorator lives as long as the module does)"""
    decs = _other_decorators(fn)
    if not decs:
        return call
    made = funcs.setdefault('__made__', {}) if isinstance(funcs, dict) else {}
    key = id(fn)
    if key in made and made[key][0] is fn:
        return made[key][1]
    out = call
    made[key] = (fn, None)
    for d in reversed(decs):
        deco = ev(d, env if env is not None else {}, funcs)
        if not callable(deco):
            raise TypeError('%r object is not callable' % type(deco).__name__)
        out = deco(out)
    made[key] = (fn, out)
    return out
