"""Interval evaluation of a one-variable expression (a kernel lambda): sound bounds of its value over a box.

ev(node, env) -> (lo, hi) with env mapping names to (lo, hi) boxes.  Comparisons evaluate to [0,0], [1,1] or [0,1].
Unknown constructs raise Unsupported: the caller then makes no claim.
"""
import ast
import math


class Unsupported(Exception):
    pass


def _mul(a, b):
    ps = [a[0] * b[0], a[0] * b[1], a[1] * b[0], a[1] * b[1]]
    return (min(ps), max(ps))


def _pow(a, k):
    if k == 0:
        return (1.0, 1.0)
    if k % 2 == 1:
        return (a[0] ** k, a[1] ** k)
    if a[0] >= 0:
        return (a[0] ** k, a[1] ** k)
    if a[1] <= 0:
        return (a[1] ** k, a[0] ** k)
    return (0.0, max(a[0] ** k, a[1] ** k))


def ev(n, env):
    if isinstance(n, ast.Constant) and isinstance(n.value, (int, float)) and not isinstance(n.value, bool):
        return (float(n.value), float(n.value))
    if isinstance(n, ast.Name):
        if n.id in env:
            return env[n.id]
        raise Unsupported('name %s' % n.id)
    if isinstance(n, ast.Attribute) and ast.unparse(n) in ('math.pi', 'np.pi'):
        return (math.pi, math.pi)
    if isinstance(n, ast.UnaryOp) and isinstance(n.op, (ast.USub, ast.UAdd)):
        a = ev(n.operand, env)
        return (-a[1], -a[0]) if isinstance(n.op, ast.USub) else a
    if isinstance(n, ast.BinOp):
        a, b = ev(n.left, env), ev(n.right, env)
        if isinstance(n.op, ast.Add):
            return (a[0] + b[0], a[1] + b[1])
        if isinstance(n.op, ast.Sub):
            return (a[0] - b[1], a[1] - b[0])
        if isinstance(n.op, ast.Mult):
            return _mul(a, b)
        if isinstance(n.op, ast.Div):
            if b[0] <= 0 <= b[1]:
                raise Unsupported('division by an interval containing 0')
            return _mul(a, (1 / b[1], 1 / b[0]))
        if isinstance(n.op, ast.Pow):
            if b[0] == b[1] and float(b[0]).is_integer() and 0 <= b[0] <= 12:
                return _pow(a, int(b[0]))
            raise Unsupported('power')
        raise Unsupported('operator %s' % type(n.op).__name__)
    if isinstance(n, ast.Compare) and len(n.ops) == 1:
        a, b = ev(n.left, env), ev(n.comparators[0], env)
        op = n.ops[0]
        if isinstance(op, (ast.LtE, ast.Lt)):
            strict = isinstance(op, ast.Lt)
            if a[1] < b[0] or (not strict and a[1] <= b[0]):
                return (1.0, 1.0)
            if a[0] > b[1] or (strict and a[0] >= b[1]):
                return (0.0, 0.0)
            return (0.0, 1.0)
        if isinstance(op, (ast.GtE, ast.Gt)):
            strict = isinstance(op, ast.Gt)
            if a[0] > b[1] or (not strict and a[0] >= b[1]):
                return (1.0, 1.0)
            if a[1] < b[0] or (strict and a[1] <= b[0]):
                return (0.0, 0.0)
            return (0.0, 1.0)
        if isinstance(op, ast.Eq):
            if a[0] == a[1] == b[0] == b[1]:
                return (1.0, 1.0)
            if a[1] < b[0] or a[0] > b[1]:
                return (0.0, 0.0)
            return (0.0, 1.0)
        raise Unsupported('comparison')
    if isinstance(n, ast.Call):
        fn = ast.unparse(n.func)
        args = [ev(a, env) for a in n.args]
        if fn in ('abs', 'math.fabs', 'np.abs') and len(args) == 1:
            a = args[0]
            if a[0] >= 0:
                return a
            if a[1] <= 0:
                return (-a[1], -a[0])
            return (0.0, max(-a[0], a[1]))
        if fn in ('math.exp', 'np.exp') and len(args) == 1:
            return (math.exp(args[0][0]), math.exp(args[0][1]))
        if fn in ('math.sqrt', 'np.sqrt') and len(args) == 1 and args[0][0] >= 0:
            return (math.sqrt(args[0][0]), math.sqrt(args[0][1]))
        if fn in ('math.pow', 'pow') and len(args) == 2 and args[1][0] == args[1][1] and float(args[1][0]).is_integer() and 0 <= args[1][0] <= 12:
            return _pow(args[0], int(args[1][0]))
        raise Unsupported('call %s' % fn)
    raise Unsupported(type(n).__name__)
