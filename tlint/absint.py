"""Harness for interpreting repository code on a finite case domain with tlint.orders (nothing is executed by Python:
the function bodies are walked by the interpreter of tlint.orders over abstract objects, markers and case representatives).

  funcs = absint.funcs(ctx, module, stubs)      resolver: bare-name calls to repository functions are interpreted, stubs override
  obj   = absint.instance(ctx, clsqual, fields, funcs)   record with the methods of the repository class (and of its repo bases)
"""
import ast
import math

from . import orders
from .loader import shape_error


_BUILTIN_NAMES = {'float': float, 'int': int, 'bool': bool, 'str': str, 'list': list, 'tuple': tuple, 'dict': dict, 'set': set,
                  'None': None, 'True': True, 'False': False,
                  # builtin functions taken as values (passed along, compared with a constant): the Python objects themselves
                  'max': max, 'min': min, 'abs': abs, 'len': len, 'sum': sum, 'sorted': sorted, 'round': round, 'any': any, 'all': all,
                  'repr': repr, 'id': id, 'hash': hash, 'type': type, 'object': object, 'range': range, 'zip': zip, 'enumerate': enumerate,
                  'NotImplemented': NotImplemented, 'Ellipsis': Ellipsis}


_MISSING = object()
import operator as _operator
_PURE_STDLIB = {'math': math}


def funcs(ctx, module=None, stubs=None):
    fn = {}

    def lookup(name):
        if module is not None:
            fi = ctx.prog.maybe_func(module + '.' + name)
            if fi is not None and fi.cls is None:
                return fi
        cands = [fi for fi in ctx.prog.by_name.get(name, []) if fi.cls is None and fi.parent is None]
        quals = {fi.qual for fi in cands}
        if len(quals) == 1:
            return cands[0]
        return None

    def make(fi, nm):
        made = orders.make_func(fi.node, fn)
        if fi.node.decorator_list and nm not in fn.setdefault('__registered__', set()):
            # decorators run when the module is imported: functions of the same module registered ON this one
            # (@name.register(int) def _(v): ...) are registered now, in source order
            fn['__registered__'].add(nm)
            mod_ = ctx.prog.modules.get(fi.qual.rsplit('.', 1)[0])
            for st in (mod_.tree.body if mod_ is not None else ()):
                if isinstance(st, ast.FunctionDef) and st is not fi.node:
                    for d in st.decorator_list:
                        root = d
                        while isinstance(root, (ast.Call, ast.Attribute)):
                            root = root.func if isinstance(root, ast.Call) else root.value
                        if isinstance(root, ast.Name) and root.id == nm:
                            orders.make_func(st, fn)
                            break
        return made
    consts = {}
    exprs = {}

    _alias_tables = {}

    def _tables():
        """one pass over the imports of the package: {bound name: target} for names imported under another name, and for modules bound to a name"""
        if _alias_tables:
            return _alias_tables
        names, mods = {}, {}
        cur = ctx.prog.modules.get(module)
        mods_ = ([cur] if cur is not None else []) + [m_ for m_ in ctx.prog.modules.values() if m_ is not cur]
        for m_ in mods_:
            pkg = m_.name.split('.')[:-1]
            for imp in ast.walk(m_.tree):
                if isinstance(imp, ast.Import):
                    for al in imp.names:
                        if al.asname and al.name == 'math':
                            names.setdefault(al.asname, ('math',))
                        elif al.asname and al.name in ctx.prog.modules:
                            mods.setdefault(al.asname, al.name)
                elif isinstance(imp, ast.ImportFrom):
                    base = imp.module or ''
                    if imp.level:
                        up = pkg[:len(pkg) - (imp.level - 1)] if imp.level > 1 else pkg
                        base = '.'.join(up + ([imp.module] if imp.module else []))
                    for al in imp.names:
                        bound = al.asname or al.name
                        if (base + '.' + al.name) in ctx.prog.modules:
                            mods.setdefault(bound, base + '.' + al.name)
                            continue
                        if not al.asname or al.asname == al.name:
                            continue
                        if imp.level == 0 and imp.module == 'math' and hasattr(math, al.name):
                            names.setdefault(bound, ('mathname', al.name))
                            continue
                        if not base.startswith('tracklib'):
                            continue
                        target = None
                        for q_ in [base] + [q2 for q2 in ctx.prog.modules if q2.startswith(base + '.')]:
                            if q_ in ctx.prog.modules and (ctx.prog.maybe_func(q_ + '.' + al.name) is not None or (q_ + '.' + al.name) in ctx.prog.classes or al.name in ctx.prog.modules[q_].consts):
                                target = ('repo', q_, al.name)
                                break
                        names.setdefault(bound, target or ('repo', base, al.name))
        _alias_tables['names'], _alias_tables['mods'] = names, mods
        return _alias_tables

    def import_alias(nm):
        return _tables()['names'].get(nm)

    def module_alias(nm):
        return _tables()['mods'].get(nm)

    def _module_alias_old(nm):
        cur = ctx.prog.modules.get(module)
        mods_ = ([cur] if cur is not None else []) + [m_ for m_ in ctx.prog.modules.values() if m_ is not cur]
        for m_ in mods_:
            pkg = m_.name.split('.')[:-1] if not m_.name.endswith('__init__') else m_.name.split('.')
            for imp in ast.walk(m_.tree):
                if isinstance(imp, ast.Import):
                    for al in imp.names:
                        if al.asname == nm and al.name in ctx.prog.modules:
                            return al.name
                elif isinstance(imp, ast.ImportFrom):
                    base = imp.module or ''
                    if imp.level:
                        up = pkg[:len(pkg) - (imp.level - 1)] if imp.level > 1 else pkg
                        base = '.'.join(up + ([imp.module] if imp.module else []))
                    for al in imp.names:
                        if (al.asname or al.name) == nm and (base + '.' + al.name) in ctx.prog.modules:
                            return base + '.' + al.name
        return None

    def name_of(nm):
        if stubs and nm in stubs:
            return stubs[nm]
        fi = lookup(nm)
        if fi is not None:
            return make(fi, nm)
        if nm not in consts:
            consts[nm] = None
            mods = ([ctx.prog.modules[module]] if module in ctx.prog.modules else []) + list(ctx.prog.modules.values())
            for m in mods:
                c = m.consts.get(nm)
                if isinstance(c, ast.Constant):
                    consts[nm] = c
                    break
                if isinstance(c, ast.UnaryOp) and isinstance(c.op, ast.USub) and isinstance(c.operand, ast.Constant):
                    consts[nm] = ast.Constant(value=-c.operand.value)
                    break
        if consts[nm] is not None:
            return consts[nm].value
        # a module-level constant given by an expression (EPS = np.finfo(float).eps, TWO_PI = 2 * math.pi): evaluated once
        if nm not in exprs:
            exprs[nm] = _MISSING
            mods = ([ctx.prog.modules[module]] if module in ctx.prog.modules else []) + list(ctx.prog.modules.values())
            for m in mods:
                c = m.consts.get(nm)
                if c is not None and not isinstance(c, (ast.Constant, ast.Lambda)):
                    try:
                        exprs[nm] = orders.ev(c, {}, fn)
                    except orders.Unsupported:
                        pass
                    break
        if exprs[nm] is not _MISSING:
            return exprs[nm]
        for m in ([ctx.prog.modules[module]] if module in ctx.prog.modules else []) + list(ctx.prog.modules.values()):
            c = m.consts.get(nm)
            if isinstance(c, ast.Lambda):
                exprs[nm] = orders.ev(c, {}, fn)             # NAME = lambda ...: at module level
                return exprs[nm]
        if nm in _BUILTIN_NAMES:
            return _BUILTIN_NAMES[nm]
        # a name imported from a pure standard-library module (from operator import lt as _lt)
        mods_ = ([ctx.prog.modules[module]] if module in ctx.prog.modules else []) + list(ctx.prog.modules.values())
        for m in mods_:
            for imp in getattr(m, 'imports', []):
                if isinstance(imp, ast.ImportFrom) and imp.level == 0 and orders.pure_module(imp.module) is not None:
                    for al in imp.names:
                        if (al.asname or al.name) == nm:
                            return getattr(orders.pure_module(imp.module), al.name)
                if isinstance(imp, ast.ImportFrom) and imp.module in _PURE_STDLIB and imp.level == 0:
                    for al in imp.names:
                        if (al.asname or al.name) == nm and hasattr(_PURE_STDLIB[imp.module], al.name):
                            return getattr(_PURE_STDLIB[imp.module], al.name)
                if isinstance(imp, ast.Import):
                    for al in imp.names:
                        if (al.asname or al.name) == nm and orders.pure_module(al.name) is not None:
                            return orders.pure_module(al.name)
        # a function, class or constant of the repository imported under another name (from ..utils import listify as _listify), math under
        # another name (import math as _math)
        al_ = import_alias(nm)
        if al_ is not None:
            if al_[0] == 'math':
                return orders._MathModule()
            if al_[0] == 'mathname':
                return getattr(math, al_[1])
            if al_[0] == 'repo' and al_[2] != nm:
                mod_q, orig = al_[1], al_[2]
                fi_ = ctx.prog.maybe_func(mod_q + '.' + orig)
                if fi_ is not None and fi_.cls is None:
                    return make(fi_, orig)
                if (mod_q + '.' + orig) in ctx.prog.classes:
                    if ('class', mod_q + '.' + orig) not in exprs:
                        exprs[('class', mod_q + '.' + orig)] = ClassRef(ctx, mod_q + '.' + orig, fn)
                    return exprs[('class', mod_q + '.' + orig)]
                return name_of(orig)
        # a module of the repository bound to a name (from ..util import helpers as _helpers; import tracklib.util.helpers as _hp)
        mq_ = module_alias(nm)
        if mq_ is not None:
            if ('module', mq_) not in exprs:
                exprs[('module', mq_)] = RepoModule(ctx, mq_, fn, stubs)
            return exprs[('module', mq_)]
        # a repository class referred to by name (static methods, class constants, construction)
        quals = [q for q, ci in ctx.prog.classes.items() if ci.name == nm]
        if module is not None and (module + '.' + nm) in quals:
            quals = [module + '.' + nm]
        if len(quals) > 1 and module in ctx.prog.modules:
            # several classes of that name: the one the module imports (from tracklib.core import Edge -> a module of that package)
            for imp in getattr(ctx.prog.modules[module], 'imports', []):
                if isinstance(imp, ast.ImportFrom) and imp.level == 0 and imp.module and any((al.asname or al.name) == nm for al in imp.names):
                    al = [al for al in imp.names if (al.asname or al.name) == nm][0]
                    picked = [q for q in quals if q == imp.module + '.' + al.name or (q.startswith(imp.module + '.') and q.endswith('.' + al.name))]
                    if len(picked) == 1:
                        quals = picked
        if len(quals) == 1:
            if ('class', quals[0]) not in exprs:
                exprs[('class', quals[0])] = ClassRef(ctx, quals[0], fn)
            return exprs[('class', quals[0])]
        raise orders.Unsupported('free name %s' % nm)

    def resolve(call, fname):
        if isinstance(call.func, ast.Name) or (isinstance(call.func, ast.Attribute) and (ast.unparse(call.func.value) in ('tracklib', 'utils', 'Geometry') or (ast.unparse(call.func.value).startswith('tracklib.') and all(isinstance(x_, (ast.Attribute, ast.Name, ast.Load)) for x_ in ast.walk(call.func.value))))):
            fi = lookup(fname)
            if fi is not None:
                return make(fi, fname)
        return None
    def run_imports():
        """decorators of module-level functions run when their module is imported (registries filled by @_register(key) ...): once per
        name table, in source order"""
        for mod_ in ctx.prog.modules.values():
            for st in mod_.tree.body:
                if isinstance(st, ast.FunctionDef) and orders._other_decorators(st):
                    try:
                        orders.make_func(st, fn)
                    except (orders.Unsupported, orders.Raised, TypeError, AttributeError, KeyError, ValueError, IndexError, NameError):
                        pass
                elif isinstance(st, ast.ClassDef):
                    q = mod_.name + '.' + st.name
                    if q not in ctx.prog.classes:
                        continue
                    try:
                        class_created(q, st)
                    except (orders.Unsupported, orders.Raised, TypeError, AttributeError, KeyError, ValueError, IndexError, NameError):
                        pass

    def class_created(q, node):
        """what Python does when a class statement is executed, beyond binding the name: the __init_subclass__ hook of the nearest base
        that defines one (with the keywords of the class statement), then the class decorators, innermost first"""
        c = ctx.prog.classes[q]
        hook = None
        todo = []
        for b in c.bases:
            todo += [cq for cq, ci in ctx.prog.classes.items() if ci.name == b.split('.')[-1] and ci is not c]
        seen = set()
        while todo and hook is None:
            bq = todo.pop(0)
            if bq in seen:
                continue
            seen.add(bq)
            bc = ctx.prog.classes[bq]
            if '__init_subclass__' in bc.methods:
                hook = bc.methods['__init_subclass__'].node
                break
            for b in bc.bases:
                todo += [cq for cq, ci in ctx.prog.classes.items() if ci.name == b.split('.')[-1] and ci is not bc]
        decos = [d for d in node.decorator_list if origin(ctx, q, d) not in ('dataclasses.dataclass', 'dataclass', 'functools.total_ordering', 'total_ordering', 'enum.unique', 'unique')]
        if hook is None and not decos:
            return
        ref = name_of(node.name)
        if not isinstance(ref, ClassRef) or ref._qual != q:
            ref = ClassRef(ctx, q, fn)
        if hook is not None:
            kw = {k.arg: orders.ev(k.value, {}, fn) for k in node.keywords if k.arg and k.arg != 'metaclass'}
            orders.make_func(hook, fn)(ref, **kw)
        for d in reversed(decos):
            orders.ev(d, {}, fn)(ref)
    fn.update({'__name__': name_of, '__resolve__': resolve, '__globals__': {},
               'floor': math.floor, 'ceil': math.ceil, 'sqrt': math.sqrt, 'fabs': math.fabs, 'trunc': math.trunc, 'round': round,
               'isnan': lambda v: isinstance(v, float) and v != v, 'print': lambda *a, **k: None})
    for nm_ in dir(math):
        if not nm_.startswith('_') and callable(getattr(math, nm_)) and nm_ != 'pow':       # (pow by its bare name is the builtin: integer results stay integers)
            fn.setdefault(nm_, getattr(math, nm_))
    fn.setdefault('deepcopy', deep_copy)
    fn.setdefault('copy', shallow_copy)
    # names the harness only supplies by default: a repository function of the same name, called by bare name, takes precedence
    fn['__defaults__'] = {k for k in fn if not k.startswith('__') and k not in (stubs or {})}
    fn.update(stubs or {})
    if stubs and '__np_names__' in stubs:
        fn['__defaults__'] |= set(stubs['__np_names__'])
    run_imports()
    return fn


_TOTAL_ORDERING = {
    '__lt__': {'__gt__': 'not (self < other) and self != other', '__le__': 'self < other or self == other', '__ge__': 'not (self < other)'},
    '__le__': {'__ge__': 'not (self <= other) or self == other', '__lt__': 'self <= other and self != other', '__gt__': 'not (self <= other)'},
    '__gt__': {'__lt__': 'not (self > other) and self != other', '__ge__': 'self > other or self == other', '__le__': 'not (self > other)'},
    '__ge__': {'__le__': 'not (self >= other) or self == other', '__gt__': 'self >= other and self != other', '__lt__': 'not (self >= other)'},
}
_SYNTH = {}


def total_ordering_methods(defined):
    """the comparison methods functools.total_ordering adds to a class that defines `defined`: FunctionDef nodes, derived from the
    first of __lt__, __le__, __gt__, __ge__ the class has (as functools does)"""
    for root in ('__lt__', '__le__', '__gt__', '__ge__'):
        if root in defined:
            out = {}
            for name, expr in _TOTAL_ORDERING[root].items():
                if name not in defined:
                    key = (root, name)
                    if key not in _SYNTH:
                        _SYNTH[key] = ast.parse('def %s(self, other):\n    return %s\n' % (name, expr)).body[0]
                    out[name] = _SYNTH[key]
            return out
    return {}


class RepoModule(orders.PyStub):
    """a module of the repository held in a variable: its functions, constants and classes, resolved as in that module"""

    def __init__(self, ctx, qual, fn, stubs=None):
        object.__setattr__(self, '_ctx', ctx)
        object.__setattr__(self, '_qualname', qual)
        object.__setattr__(self, '_fn', fn)
        object.__setattr__(self, '_stubs', stubs)

    def __getattr__(self, k):
        if k.startswith('__') or k in ('repo_methods', 'repo_funcs', 'isa', 'clsname', 'owners', '_qual'):
            raise AttributeError(k)
        ctx, qual, fn = self._ctx, self._qualname, self._fn
        if self._stubs and k in self._stubs:
            return self._stubs[k]
        fi = ctx.prog.maybe_func(qual + '.' + k)
        if fi is not None and fi.cls is None:
            return orders.make_func(fi.node, fn)
        if (qual + '.' + k) in ctx.prog.classes:
            cache = fn.setdefault('__module_classes__', {})
            if (qual + '.' + k) not in cache:
                cache[qual + '.' + k] = ClassRef(ctx, qual + '.' + k, fn)
            return cache[qual + '.' + k]
        m = ctx.prog.modules.get(qual)
        if m is not None and k in m.consts:
            if sum(1 for m2 in ctx.prog.modules.values() if k in m2.consts) == 1 and (qual, k) not in fn.get('__module_consts__', {}):
                try:
                    return fn['__name__'](k)          # (the one object of that name: the module's functions see the same one)
                except orders.Unsupported:
                    pass
            cache = fn.setdefault('__module_consts__', {})
            if (qual, k) not in cache:
                cache[(qual, k)] = orders.ev(m.consts[k], {}, fn)
            return cache[(qual, k)]
        if (qual + '.' + k) in ctx.prog.modules:
            return RepoModule(ctx, qual + '.' + k, fn, self._stubs)
        try:
            return fn['__name__'](k)            # a name the module itself imported
        except orders.Unsupported:
            raise AttributeError("module %r has no attribute %r" % (qual, k))

    def __setattr__(self, k, v):
        self._fn.setdefault('__module_consts__', {})[(self._qualname, k)] = v


def methods_of(ctx, clsqual):
    """AST methods of a repository class, own methods overriding those of its repository base classes"""
    out = {}
    c = ctx.prog.cls(clsqual)
    for b in reversed(c.bases):          # (the first base listed wins, as in Python's method resolution order)
        for q, ci in ctx.prog.classes.items():
            if ci.name == b.split('.')[-1] and ci is not c:
                out.update(methods_of(ctx, q))
    for name, fi in c.methods.items():
        out[name] = fi.node
        if name.startswith('__') and not name.endswith('__'):
            out['_' + c.name.lstrip('_') + name] = fi.node          # a private method also answers to its mangled name (each class keeps its own)
    if any(origin(ctx, clsqual, d) in ('functools.total_ordering', 'total_ordering') for d in c.node.decorator_list):
        out.update(total_ordering_methods(set(c.methods)))
    return out


def owners_of(ctx, clsqual):
    """method name -> name of the class that defines it (private names are mangled with the DEFINING class)"""
    out = {}
    c = ctx.prog.cls(clsqual)
    for b in reversed(c.bases):
        for q, ci in ctx.prog.classes.items():
            if ci.name == b.split('.')[-1] and ci is not c:
                out.update(owners_of(ctx, q))
    for name in c.methods:
        out[name] = c.name
        if name.startswith('__') and not name.endswith('__'):
            out['_' + c.name.lstrip('_') + name] = c.name
    if any(origin(ctx, clsqual, d) in ('functools.total_ordering', 'total_ordering') for d in c.node.decorator_list):
        for name in total_ordering_methods(set(c.methods)):
            out[name] = c.name
    return out


def consts_of(ctx, clsqual, fn=None):
    """class-level constants of a repository class (and of its repository bases), also under their mangled names.  One dictionary per
    class and name table: the class object and all its instances see the SAME values (a class-level list mutated through one of them
    is mutated for all, a class attribute rebound through the class is rebound for all), as in a Python process"""
    shared = fn.setdefault('__class_consts__', {}) if isinstance(fn, dict) else None
    if shared is not None and clsqual in shared:
        return shared[clsqual]
    out = {}
    if shared is not None:
        shared[clsqual] = out
    c = ctx.prog.cls(clsqual)
    for b in c.bases:
        for q, ci in ctx.prog.classes.items():
            if ci.name == b.split('.')[-1] and ci is not c:
                for k_, v_ in consts_of(ctx, q, fn).items():
                    out.setdefault(k_, v_)
    for k, v in c.consts.items():
        try:
            val = ast.literal_eval(v)
        except Exception:
            try:
                val = orders.ev(v, dict(out), fn)
            except Exception:
                continue
        out[k] = val
        if k.startswith('__') and not k.endswith('__'):
            out['_' + c.name.lstrip('_') + k] = val
        if isinstance(val, orders.Obj) and '__set_name__' in val.methods:
            try:
                val.call('__set_name__', None, k)           # (the owner class is not modelled as a value here)
            except (orders.Unsupported,) + orders.PROGRAM_ERRORS:
                pass
    if isinstance(fn, dict):
        # decorators of methods run when the class body is executed (a registry filled by @_handles(table, int) ...): once, in source
        # order, in the scope of the class
        for st in c.node.body:
            if isinstance(st, ast.FunctionDef) and orders._other_decorators(st):
                def raw(receiver, *a, _st=st, _owner=c.name, **k):
                    return orders.Obj.call(receiver, _st.name, *a, _fn=_st, _owner=_owner, _raw=True, **k)
                raw.__name__ = st.name
                scope = dict(out)
                scope['__cls__'] = c.name
                for st2 in c.node.body:         # (functions defined earlier in the class body are plain functions there)
                    if st2 is st:
                        break
                    if isinstance(st2, ast.FunctionDef) and st2.name not in scope:
                        scope[st2.name] = orders.make_func(st2, fn)
                try:
                    orders._decorate(st, raw, fn, env=scope)
                except orders.Unsupported:
                    pass
    return out


def exc_bases(ctx, clsqual):
    """for a repository class that derives (through repository classes) from a builtin exception: the names of all the classes its
    instances are instances of (repository classes first, then the builtin exception and its bases); () otherwise"""
    names, builtin = [], []
    seen = set()
    todo = [clsqual]
    while todo:
        q = todo.pop(0)
        if q in seen or q not in ctx.prog.classes:
            continue
        seen.add(q)
        c = ctx.prog.classes[q]
        names.append(c.name)
        for b in c.bases:
            bn = b.split('.')[-1]
            repo = [cq for cq, ci in ctx.prog.classes.items() if ci.name == bn and ci is not c]
            if repo:
                todo.extend(repo)
            else:
                bc = orders._builtin_exception(bn)
                if bc is not None:
                    builtin.extend(n_ for n_ in orders.exception_names(bc) if n_ not in builtin)
    return tuple(names + builtin) if builtin else ()


def classnames_of(ctx, clsqual):
    """every name bound at class level in a repository class and its repository bases (evaluable or not)"""
    out = set()
    c = ctx.prog.cls(clsqual)
    for b in c.bases:
        for q, ci in ctx.prog.classes.items():
            if ci.name == b.split('.')[-1] and ci is not c:
                out |= classnames_of(ctx, q)
    out |= set(c.consts)
    return out


def origin(ctx, clsqual, node):
    """the standard-library object a decorator / base-class expression of a repository class denotes, as 'module.name', following the
    imports of the class's module (from dataclasses import dataclass as _dataclass; import enum as _enum); the bare text otherwise"""
    c = ctx.prog.cls(clsqual)
    modname = clsqual[:-(len(c.name) + 1)]
    while modname and modname not in ctx.prog.modules:
        modname = modname.rpartition('.')[0]
    imports = list(getattr(ctx.prog.modules.get(modname), 'imports', []))
    # (imports made inside functions / classes of the module count as well)
    mod = ctx.prog.modules.get(modname)
    if mod is not None:
        for n_ in ast.walk(mod.tree):
            if isinstance(n_, (ast.Import, ast.ImportFrom)) and n_ not in imports:
                imports.append(n_)
    if isinstance(node, ast.Call):
        node = node.func
    if isinstance(node, ast.Name):
        for imp in imports:
            if isinstance(imp, ast.ImportFrom) and imp.level == 0:
                for al in imp.names:
                    if (al.asname or al.name) == node.id:
                        return '%s.%s' % (imp.module, al.name)
        return node.id
    if isinstance(node, ast.Attribute) and isinstance(node.value, ast.Name):
        for imp in imports:
            if isinstance(imp, ast.Import):
                for al in imp.names:
                    if (al.asname or al.name) == node.value.id:
                        return '%s.%s' % (al.name, node.attr)
        return '%s.%s' % (node.value.id, node.attr)
    return ast.unparse(node)


def mro_of(ctx, clsqual):
    """[(class name, {method name: FunctionDef defined in that class})] from the class to its repository bases (depth first, as far as
    single inheritance and simple mix-ins go)"""
    c = ctx.prog.cls(clsqual)
    out = [(c.name, {name: fi.node for name, fi in c.methods.items()})]
    for b in c.bases:
        for q, ci in ctx.prog.classes.items():
            if ci.name == b.split('.')[-1] and ci is not c:
                for entry in mro_of(ctx, q):
                    if entry[0] not in [e_[0] for e_ in out]:
                        out.append(entry)
    return out


def instance(ctx, clsqual, fields, fn, isa=None):
    c = ctx.prog.cls(clsqual)
    o = orders.Obj(dict(fields), methods_of(ctx, clsqual), fn, isa=isa or {c.name})
    o.mro = mro_of(ctx, clsqual)
    o.classnames = classnames_of(ctx, clsqual)
    o.clsname = c.name
    o.clsqual = clsqual
    o.consts = consts_of(ctx, clsqual, fn)
    o.owners = owners_of(ctx, clsqual)
    eb = exc_bases(ctx, clsqual)
    if eb:
        o.excbases = eb
        o.isa = set(o.isa) | set(eb)
        o.fields.setdefault('args', ())
    return o


def guard(f, what):
    """decorator-like helper: run a thunk, turning interpreter limits into shape errors"""
    def run(thunk):
        try:
            return thunk()
        except orders.Unsupported as ex:
            raise shape_error('%s not interpretable: %s' % (what, ex), f.loc())
    return run


class _EnumMember(orders.PyStub):
    """a member of an Enum: compared by identity, hashed by name"""

    def __init__(self, cls, name, value):
        self._cls, self.name, self.value = cls, name, value
        self.isa = (cls, 'Enum')

    def __repr__(self):
        return '<%s.%s: %r>' % (self._cls, self.name, self.value)

    def __str__(self):
        return '%s.%s' % (self._cls, self.name)

    def __hash__(self):
        return hash(self.name)

    def __eq__(self, other):
        return self is other

    def __ne__(self, other):
        return self is not other

    def __reduce_ex__(self, proto):
        return self.__class__, (self._cls, self.name, self.value)

    def __deepcopy__(self, memo):
        return self

    def __copy__(self):
        return self


class _IntMember(int):
    """a member of an IntEnum: an int with a name"""

    @classmethod
    def make(cls, owner, name, value):
        m = int.__new__(cls, value)
        m._cls, m.name, m.value = owner, name, int(value)
        return m

    def __repr__(self):
        return '<%s.%s: %d>' % (self._cls, self.name, int(self))

    def __str__(self):
        return str(int(self))

    def __deepcopy__(self, memo):
        return self

    def __copy__(self):
        return self


class ClassRef(orders.PyStub):
    """the class object of a repository class: class constants, static methods, and construction of records"""

    def __init__(self, ctx, clsqual, fn):
        c = ctx.prog.cls(clsqual)
        object.__setattr__(self, '_ctx', ctx)
        object.__setattr__(self, '_qual', clsqual)
        object.__setattr__(self, '_fn', fn)
        object.__setattr__(self, 'isa', ('type',))
        object.__setattr__(self, '_consts', consts_of(ctx, clsqual, fn))
        kind = [origin(ctx, clsqual, b).split('.')[-1] for b in c.node.bases]
        if any(k_ in ('Enum', 'IntEnum', 'Flag', 'IntFlag', 'StrEnum') for k_ in kind):
            # an enumeration: every class-level constant is a member (name, value); IntEnum members are ints; an Enum that defines methods
            # or properties has members that are records of the class (identity equality, one object per member)
            if any(k_ in ('Flag', 'IntFlag', 'StrEnum') for k_ in kind):
                raise orders.Unsupported('flag / string enumeration %s' % c.name)
            is_int = 'IntEnum' in kind
            plain_methods = [m_ for m_, fi_ in c.methods.items()]
            if is_int and [m_ for m_ in plain_methods if not any(isinstance(d_, ast.Name) and d_.id in ('classmethod', 'staticmethod') for d_ in c.methods[m_].node.decorator_list)]:
                raise orders.Unsupported('IntEnum %s with instance methods' % c.name)
            members = self._consts.get('__enum_list__')
            if members is None:
                members = []
                self._consts['__enum_list__'] = members
                self._consts['__members__'] = {}
                auto_n = 0
                for st in c.node.body:
                    if isinstance(st, ast.Assign) and len(st.targets) == 1 and isinstance(st.targets[0], ast.Name) and not st.targets[0].id.startswith('_'):
                        nm_ = st.targets[0].id
                        if isinstance(st.value, ast.Call) and origin(ctx, clsqual, st.value).split('.')[-1] == 'auto':
                            auto_n = (max([m_.value for m_ in members if isinstance(m_.value, int)] + [0]) + 1) if members else 1
                            val_ = auto_n
                        else:
                            val_ = orders.ev(st.value, dict((m_.name, m_.value) for m_ in members), fn)
                        same = [m_ for m_ in members if m_.value == val_ and type(m_.value) is type(val_)]
                        if same:
                            m_ = same[0]
                        elif is_int:
                            m_ = _IntMember.make(c.name, nm_, val_)
                        elif plain_methods:
                            m_ = instance(ctx, clsqual, {'_name_': nm_, '_value_': val_}, fn, isa=all_bases(ctx, clsqual))
                            m_.enum_member = (c.name, nm_)
                            m_.singleton = True
                            m_.constructed = True
                            m_.name, m_.value = nm_, val_
                            m_.fields['name'], m_.fields['value'] = nm_, val_
                            if '__init__' in m_.methods:
                                m_.call('__init__', *(val_ if isinstance(val_, tuple) else (val_,)))
                        else:
                            m_ = _EnumMember(c.name, nm_, val_)
                        if not same:
                            members.append(m_)
                        self._consts[nm_] = m_
                        self._consts['__members__'][nm_] = m_
            object.__setattr__(self, '_enum', members)
        for name, node in methods_of(ctx, clsqual).items():
            params = [a.arg for a in getattr(node.args, 'posonlyargs', [])] + [a.arg for a in node.args.args]
            static = any(isinstance(d, ast.Name) and orders._deco_name(d) in ('staticmethod',) for d in node.decorator_list) or not params or params[0] not in ('self', 'cls')
            if any(isinstance(d, ast.Name) and orders._deco_name(d) == 'classmethod' for d in node.decorator_list) and params:
                # a class method reached through the class: its first parameter is the class object itself
                object.__setattr__(self, name, (lambda node_: lambda *a, **k: orders.make_func(node_, fn)(self, *a, **k))(node))
            elif static:
                object.__setattr__(self, name, orders.make_func(node, fn))
            elif name != '__init__':
                # an instance method reached through the class, with the receiver passed explicitly: Track.helper(self, ...)
                object.__setattr__(self, name, self._unbound(name))

    def __getattr__(self, k):
        # (only reached when the class object has no method of that name) a class-level constant: read from the shared dictionary
        consts = object.__getattribute__(self, '__dict__').get('_consts')
        if consts is not None and k in consts:
            return consts[k]
        if k in ('__name__', '__qualname__') and '_qual' in object.__getattribute__(self, '__dict__'):
            return self._qual.rsplit('.', 1)[-1]
        if k in ('_make', '_fields') and '_qual' in object.__getattribute__(self, '__dict__'):
            # the class-level helpers of a namedtuple class
            nt = self._tuple_base()
            if nt is not None:
                if k == '_fields':
                    return tuple(nt._fields)

                def _make(iterable):
                    vals = list(orders._iter(iterable))
                    if len(vals) != len(nt._fields):
                        raise TypeError('Expected %d arguments, got %d' % (len(nt._fields), len(vals)))
                    return self(*vals)
                return _make
        raise AttributeError(k)

    def __setattr__(self, k, v):
        # Class.attr = value: rebinds the class attribute for the class and every instance
        consts = self.__dict__.get('_consts')
        if consts is None:
            object.__setattr__(self, k, v)
            return
        consts[k] = v
        cname = self._ctx.prog.cls(self._qual).name
        if k.startswith('__') and not k.endswith('__'):
            consts['_' + cname.lstrip('_') + k] = v
        elif k.startswith('_' + cname.lstrip('_') + '__'):
            consts[k[len('_' + cname.lstrip('_')):]] = v

    def _unbound(self, name):
        methods = methods_of(self._ctx, self._qual)
        clsname = self._ctx.prog.cls(self._qual).name
        owners = owners_of(self._ctx, self._qual)

        def call(receiver, *args, **kwargs):
            if isinstance(receiver, orders.Obj):
                if name in receiver.methods:
                    return receiver.call(name, *args, **kwargs)
                raise orders.Unsupported('%s.%s called on a record of another class' % (clsname, name))
            if isinstance(receiver, orders.PyStub):
                b = orders._Bound(receiver, methods, self._fn)
                return orders.Obj.call(b, name, *args, **kwargs)
            raise TypeError('%s.%s() needs an instance as first argument' % (clsname, name))
        call.__name__ = name
        return call

    def _tuple_base(self):
        """the namedtuple class this repository class (or one of its repository bases) derives from, if any:
        class _Segment(namedtuple('_Segment', 'x1 y1 x2 y2')) or a base bound to such a class at module level"""
        if '_ntbase' not in self.__dict__:
            found = None
            stack = [self._qual]
            seen = set()
            while stack and found is None:
                q = stack.pop()
                if q in seen:
                    continue
                seen.add(q)
                c = self._ctx.prog.cls(q)
                for b in c.node.bases:
                    if origin(self._ctx, q, b).split('.')[-1] == 'NamedTuple':
                        # class P(NamedTuple): x: float; y: float = 0.0
                        import collections as _cl
                        names_, defaults_ = [], []
                        for st in c.node.body:
                            if isinstance(st, ast.AnnAssign) and isinstance(st.target, ast.Name):
                                names_.append(st.target.id)
                                if st.value is not None:
                                    defaults_.append(orders.ev(st.value, {}, self._fn))
                        found = _cl.namedtuple(c.name, names_, defaults=defaults_ or None)
                        break
                    try:
                        v = orders.ev(b, {}, self._fn)
                    except (orders.Unsupported, KeyError, AttributeError, TypeError):
                        continue
                    if isinstance(v, type) and issubclass(v, tuple) and hasattr(v, '_fields'):
                        found = v
                        break
                    if isinstance(v, ClassRef):
                        stack.append(v._qual)
            object.__setattr__(self, '_ntbase', found)
        return self.__dict__['_ntbase']

    def _dataclass(self):
        """(fields, options) when the class is decorated with @dataclass: fields = [(name, default node or None, factory node or None)] in
        definition order, those of dataclass bases first"""
        if '_dc' not in self.__dict__:
            res = None
            c = self._ctx.prog.cls(self._qual)
            opts = None
            for d in c.node.decorator_list:
                nm = origin(self._ctx, self._qual, d)
                if nm in ('dataclasses.dataclass', 'dataclass'):
                    opts = {'eq': True, 'frozen': False, 'order': False, 'init': True, 'repr': True}
                    if isinstance(d, ast.Call):
                        for kw in d.keywords:
                            if kw.arg in opts and isinstance(kw.value, ast.Constant):
                                opts[kw.arg] = bool(kw.value.value)
            if opts is not None:
                fields = []
                for b in c.bases:
                    for q, ci in self._ctx.prog.classes.items():
                        if ci.name == b.split('.')[-1] and ci is not c:
                            sub = ClassRef(self._ctx, q, self._fn)._dataclass()
                            if sub:
                                fields.extend(sub[0])
                for st in c.node.body:
                    if isinstance(st, ast.AnnAssign) and isinstance(st.target, ast.Name) and 'ClassVar' not in ast.unparse(st.annotation):
                        default = factory = None
                        in_init = True
                        v = st.value
                        if isinstance(v, ast.Call) and origin(self._ctx, self._qual, v) in ('dataclasses.field', 'field'):
                            for kw in v.keywords:
                                if kw.arg == 'default':
                                    default = kw.value
                                elif kw.arg == 'default_factory':
                                    factory = kw.value
                                elif kw.arg == 'init' and isinstance(kw.value, ast.Constant) and not kw.value.value:
                                    in_init = False
                        elif v is not None:
                            default = v
                        fields = [f_ for f_ in fields if f_[0] != st.target.id] + [(st.target.id, default, factory, in_init)]
                res = (fields, opts)
            object.__setattr__(self, '_dc', res)
        return self.__dict__['_dc']

    # -- enumerations: Mode(2), Mode['MIN'], for m in Mode, len(Mode), m in Mode
    def __iter__(self):
        if '_enum' not in self.__dict__:
            raise TypeError('%r object is not iterable' % 'type')
        return iter(list(self.__dict__['_enum']))

    def __reversed__(self):
        if '_enum' not in self.__dict__:
            raise TypeError("'type' object is not reversible")
        return iter(list(self.__dict__['_enum'])[::-1])

    def __len__(self):
        if '_enum' not in self.__dict__:
            raise TypeError("object of type 'type' has no len()")
        return len(self.__dict__['_enum'])

    def __getitem__(self, name):
        if '_enum' not in self.__dict__:
            raise TypeError("type %r is not subscriptable" % self._qual.split('.')[-1])
        for m_ in self.__dict__['_enum']:
            if m_.name == name:
                return m_
        raise KeyError(name)

    def __contains__(self, v):
        return any(m_ is v for m_ in self.__dict__.get('_enum', ()))

    def __call__(self, *args, **kwargs):
        if '_enum' in self.__dict__:
            if len(args) != 1 or kwargs:
                raise TypeError('an enumeration is called with one value')
            for m_ in self.__dict__['_enum']:
                if m_ is args[0] or (m_.value == args[0]):
                    return m_
            raise ValueError('%r is not a valid %s' % (args[0], self._qual.split('.')[-1]))
        obj = instance(self._ctx, self._qual, {}, self._fn, isa=all_bases(self._ctx, self._qual))
        if '_abstract' not in self.__dict__:
            # abc.ABC (or metaclass=ABCMeta) somewhere among the bases: a class that still has an @abstractmethod cannot be instantiated
            is_abc = False
            todo, seen = [self._qual], set()
            while todo:
                q_ = todo.pop()
                if q_ in seen or q_ not in self._ctx.prog.classes:
                    continue
                seen.add(q_)
                c_ = self._ctx.prog.classes[q_]
                if any(b_.split('.')[-1] == 'ABC' for b_ in c_.bases) or any(k_.arg == 'metaclass' and 'ABCMeta' in ast.unparse(k_.value) for k_ in c_.node.keywords):
                    is_abc = True
                for b_ in c_.bases:
                    todo += [cq for cq, ci in self._ctx.prog.classes.items() if ci.name == b_.split('.')[-1] and ci is not c_]
            left = sorted(n_ for n_, m_ in obj.methods.items() if is_abc and isinstance(m_, ast.FunctionDef) and not n_.startswith('_' + obj.clsname.lstrip('_') + '__')
                          and any('abstractmethod' in ast.unparse(d_) for d_ in m_.decorator_list) and n_ not in (obj.consts or {}))
            object.__setattr__(self, '_abstract', left)
        if self.__dict__['_abstract']:
            raise TypeError("Can't instantiate abstract class %s without an implementation for abstract method%s %s"
                            % (obj.clsname, 's' if len(self.__dict__['_abstract']) > 1 else '', ', '.join(repr(n_) for n_ in self.__dict__['_abstract'])))
        nt = self._tuple_base()
        if nt is not None and '__new__' not in obj.methods:
            proto = nt(*args, **kwargs)              # (binds positional / keyword / default field values as the namedtuple does)
            for k_, v_ in zip(nt._fields, proto):
                obj.fields[k_] = v_
            obj.ntfields = tuple(nt._fields)
            obj.isa = set(obj.isa) | {'tuple'}
            if '__init__' in obj.methods:
                obj.call('__init__', *args, **kwargs)
            obj.constructed = True
            return obj
        dc = self._dataclass()
        if dc is not None:
            fields, opts = dc
            obj.dcfields = tuple(f_[0] for f_ in fields)
            obj.dcopts = opts
            if opts['init'] and '__init__' not in self._ctx.prog.cls(self._qual).methods:
                names_ = [f_[0] for f_ in fields if f_[3]]
                if len(args) > len(names_):
                    raise TypeError('%s.__init__() takes %d positional arguments but %d were given' % (obj.clsname, len(names_) + 1, len(args) + 1))
                given = dict(zip(names_, args))
                for k_, v_ in kwargs.items():
                    if k_ not in names_:
                        raise TypeError('%s.__init__() got an unexpected keyword argument %r' % (obj.clsname, k_))
                    if k_ in given:
                        raise TypeError('%s.__init__() got multiple values for argument %r' % (obj.clsname, k_))
                    given[k_] = v_
                for nm_, default, factory, in_init in fields:
                    if nm_ in given:
                        obj.fields[nm_] = given[nm_]
                    elif factory is not None:
                        obj.fields[nm_] = orders.ev(factory, {}, self._fn)()
                    elif default is not None:
                        obj.fields[nm_] = orders.ev(default, {}, self._fn)
                    elif in_init:
                        raise TypeError('%s.__init__() missing required argument %r' % (obj.clsname, nm_))
                if '__post_init__' in obj.methods:
                    obj.call('__post_init__')
                obj.constructed = True
                obj.frozen = opts['frozen']
                return obj
        if getattr(obj, 'excbases', None):
            obj.fields['args'] = tuple(args)            # (BaseException.__new__ keeps the arguments whatever __init__ does)
        if '__init__' in obj.methods:
            obj.call('__init__', *args, **kwargs)
        elif getattr(obj, 'excbases', None):
            if kwargs:
                raise TypeError('%s() takes no keyword arguments' % obj.clsname)
        if dc is not None:
            obj.frozen = dc[1]['frozen']
        obj.constructed = True          # every field comes from the repository's own constructor: a missing one is an AttributeError
        return obj


def classref(ctx, clsqual, fn):
    """register the class under its bare name for calls (constructor) and for attribute access (constants, static methods)"""
    ref = ClassRef(ctx, clsqual, fn)
    name = ctx.prog.cls(clsqual).name
    fn[name] = ref
    fn['__globals__'][name] = ref
    return ref


def all_bases(ctx, clsqual):
    """names of the class and of all its repository base classes"""
    c = ctx.prog.cls(clsqual)
    out = {c.name}
    for b in c.bases:
        for q, ci in ctx.prog.classes.items():
            if ci.name == b.split('.')[-1] and ci is not c:
                out |= all_bases(ctx, q)
        out.add(b.split('.')[-1])
    return out


def _carry(src, dst):
    """what a copy of a record keeps besides its fields: the class tables and the marks set at construction"""
    for k in ('mro', 'classnames', 'constructed', 'ntfields', 'dcfields', 'dcopts', 'frozen', 'closure', 'excbases'):
        if hasattr(src, k):
            setattr(dst, k, getattr(src, k))


def shallow_copy(v):
    """copy.copy for the values of the interpreter: a new record / container holding the same members"""
    import copy as _copy
    if isinstance(v, orders.Obj) and getattr(v, 'singleton', False):
        return v
    if isinstance(v, orders.Obj):
        o = orders.Obj(dict(v.fields), v.methods, v.funcs, isa=v.isa)
        o.clsname = v.clsname
        o.clsqual = getattr(v, 'clsqual', None)
        o.consts = getattr(v, 'consts', None)
        o.owners = getattr(v, 'owners', None)
        _carry(v, o)
        return o
    if isinstance(v, (list, dict, set)):
        return _copy.copy(v)
    if isinstance(v, orders.PyStub) and not isinstance(v, ClassRef):
        return _copy.copy(v)
    return v


def deep_copy(v, memo=None):
    """copy.deepcopy for the values of the interpreter: records, abstract objects with copy(), containers"""
    memo = {} if memo is None else memo
    if id(v) in memo:
        return memo[id(v)]
    if isinstance(v, orders.Obj) and getattr(v, 'singleton', False):
        return v
    if isinstance(v, orders.Obj):
        o = orders.Obj({}, v.methods, v.funcs, isa=v.isa)
        o.clsname = v.clsname
        o.clsqual = getattr(v, 'clsqual', None)
        o.consts = getattr(v, 'consts', None)
        o.owners = getattr(v, 'owners', None)
        _carry(v, o)
        memo[id(v)] = o
        o.fields = {k: deep_copy(x, memo) for k, x in v.fields.items()}
        return o
    if isinstance(v, list):
        out = []
        memo[id(v)] = out
        out.extend(deep_copy(x, memo) for x in v)
        return out
    if isinstance(v, dict):
        out = {}
        memo[id(v)] = out
        for k, x in v.items():
            out[k] = deep_copy(x, memo)
        return out
    if isinstance(v, tuple):
        return tuple(deep_copy(x, memo) for x in v)
    if isinstance(v, set):
        return set(v)
    if isinstance(v, orders.PyStub) and callable(getattr(type(v), 'copy', None)):
        c = v.copy()
        memo[id(v)] = c
        return c
    if isinstance(v, orders.PyStub) and not isinstance(v, ClassRef) and hasattr(v, '__dict__'):
        import copy as _copy
        c = _copy.copy(v)
        memo[id(v)] = c
        for k, x in list(vars(v).items()):
            setattr(c, k, deep_copy(x, memo))
        return c
    return v


def operator_table(ctx, fn, opsmod='tracklib.core.operators'):
    """the Operator namespace: every `NAME = Cls()` of the Operator class becomes a record of that repository class; the two name
    tables become dicts of those records"""
    ref = orders.PyStub()
    c = ctx.prog.cls(opsmod + '.Operator')
    # the class body is interpreted statement by statement (constants built by calls, dict displays, ** splices, comprehensions ...)
    env = {}
    for st in c.node.body:
        if isinstance(st, (ast.Assign, ast.AnnAssign, ast.AugAssign, ast.For, ast.If)):
            try:
                orders.run_block([st], env, fn)
            except orders.Unsupported as ex:
                raise shape_error('Operator namespace not interpretable: %s' % ex, '%s:%d' % (ctx.prog.cls(opsmod + '.Operator').module.path if hasattr(ctx.prog.cls(opsmod + '.Operator'), 'module') else opsmod, st.lineno))
    for nm, v in env.items():
        if not nm.startswith('__') or not nm.endswith('__'):
            try:
                setattr(ref, nm, v)
            except Exception:
                pass
    fn['Operator'] = ref
    fn['__globals__']['Operator'] = ref
    return ref


def real_obs(ctx, fn, position, timestamp=None, **tags):
    """an observation of the repository's own Obs class (constructed by its constructor, interpreted), with extra fields the rules use as tags"""
    OB = classref(ctx, 'tracklib.core.obs.Obs', fn)
    o = OB(position, timestamp) if timestamp is not None else OB(position)
    o.fields.update(tags)
    return o
