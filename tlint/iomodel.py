"""A virtual file system and the I/O builtins the repository's readers and writers use, for the AST interpreter of tlint.orders.

open() gives an abstract file over an in-memory text (write / read / readline / iteration / with-statement); os.path and os.listdir
look at the same store; csv.reader splits the lines of such a file with the standard csv rules.  Nothing touches the disk.
"""
import csv as _csv
import io as _io
import posixpath

from . import orders


class VFS:
    def __init__(self):
        self.files = {}
        self.dirs = {'/', '/out'}

    def install(self, fn):
        vfs = self

        class FileS(orders.PyStub):
            def __init__(self, path, mode='r'):
                self.path, self.mode = path, mode
                self.closed = False
                if 'w' in mode:
                    vfs.files[path] = ''
                    self.pos = 0
                elif 'a' in mode:
                    vfs.files.setdefault(path, '')
                    self.pos = len(vfs.files[path])
                else:
                    if path not in vfs.files:
                        raise orders.Raised('FileNotFoundError', 'No such file: %r' % (path,))
                    self.pos = 0

            def write(self, s):
                if self.closed:
                    raise ValueError('I/O operation on closed file')
                if not isinstance(s, str):
                    raise TypeError('write() argument must be str, not %s' % type(s).__name__)
                vfs.files[self.path] += s
                return len(s)

            def writelines(self, lines):
                for l in lines:
                    self.write(l)

            def _text(self):
                t = vfs.files[self.path]
                return t.encode('utf-8') if 'b' in self.mode else t

            def read(self, n=-1):
                t = self._text()
                out = t[self.pos:] if n is None or n < 0 else t[self.pos:self.pos + n]
                self.pos += len(out)
                return out

            def readline(self):
                t = self._text()
                if self.pos >= len(t):
                    return t[:0]
                nl = '\n' if isinstance(t, str) else b'\n'
                k = t.find(nl, self.pos)
                end = len(t) if k < 0 else k + 1
                out = t[self.pos:end]
                self.pos = end
                return out

            def readlines(self):
                out = []
                while True:
                    l = self.readline()
                    if not l:
                        return out
                    out.append(l)

            def __iter__(self):
                return iter(self.readlines())

            def close(self):
                self.closed = True

            def flush(self):
                pass

            def __enter__(self):
                return self

            def __exit__(self, *a):
                self.closed = True
                return False

        def _open(path, mode='r', *a, **kw):
            return FileS(str(path), mode)

        def reader(f, delimiter=',', doublequote=True, quotechar='"', **kw):
            lines = f.readlines() if isinstance(f, FileS) else list(f)
            return iter([row for row in _csv.reader(_io.StringIO(''.join(lines)), delimiter=delimiter, doublequote=doublequote, quotechar=quotechar)])

        def listdir(path):
            p = str(path).rstrip('/') + '/'
            return sorted({f[len(p):].split('/')[0] for f in vfs.files if f.startswith(p)})

        def makedirs(path, *a, **kw):
            vfs.dirs.add(str(path).rstrip('/') or '/')
        fn.update({
            'open': _open, 'reader': reader,
            'isfile': lambda p: str(p) in vfs.files,
            'isdir': lambda p: (str(p).rstrip('/') or '/') in vfs.dirs or any(f.startswith(str(p).rstrip('/') + '/') for f in vfs.files),
            'exists': lambda p: str(p) in vfs.files or (str(p).rstrip('/') or '/') in vfs.dirs,
            'join': posixpath.join, 'split': posixpath.split,
            'basename': posixpath.basename, 'dirname': posixpath.dirname, 'splitext': posixpath.splitext,
            'listdir': listdir, 'makedirs': makedirs, 'mkdir': makedirs,
        })
        fn['__globals__']['open'] = _open
        self.FileS = FileS
        return self
